/*
 * mt.h - common scaffolding of the multi-thread harnesses (ev, raw, work):
 * loop threads with a control pipe, case phases driven by detected quiescence.
 * Included once per harness (static definitions).
 */
#ifndef MT_H
#define MT_H

#ifndef _GNU_SOURCE
#define _GNU_SOURCE
#endif
#include <errno.h>
#include <fcntl.h>
#include <pthread.h>
#include <sched.h>
#include <stdatomic.h>
#include <stdio.h>
#include <stdlib.h>
#include <string.h>
#include <unistd.h>
#include <iv.h>
#include "vt.h"
#include "mon.h"

static _Atomic uint64_t SEQ;		/* one global sequence for all logged events */
static inline uint64_t seq_next(void) { return atomic_fetch_add(&SEQ, 1) + 1; }

static _Atomic uint64_t ilv_hash;	/* signature of the observed interleaving (relaxed, for distinctness only) */
static inline void ilv(unsigned thr, unsigned kind, unsigned obj)
{
	uint64_t h = atomic_load_explicit(&ilv_hash, memory_order_relaxed);
	atomic_store_explicit(&ilv_hash, hash_step(h, ((uint64_t)thr << 32) | (kind << 16) | obj), memory_order_relaxed);
}

#define MAXLOOP 8
struct loopthr {
	int		idx;
	pthread_t	th;
	int		ctl[2];
	struct iv_fd	*ctlfd;
	struct rng	rng;
	_Atomic int	ready;
	_Atomic int	main_returned;
	_Atomic int	torn;
	int		reenter;	/* a handler called iv_quit() and wants iv_main() entered again */
	long		reentries;
	void		*scn;
};

static struct loopthr loops[MAXLOOP];
static int nloops;
static _Atomic int mt_phase;		/* 0 scenario running, 1 tear-down requested */
static const char *g_method = "?";
static const char *g_prop = "C08";

/* scenario interface (each harness defines these) */
static void scn_setup(struct loopthr *lt);		/* in the loop thread, after iv_init */
static void scn_ctl(struct loopthr *lt, char cmd);	/* a control byte arrived ('T' = unregister everything of the scenario) */
static void scn_after_main(struct loopthr *lt);		/* iv_main returned */
static void scn_quiescent_check(void);			/* nothing can happen any more: evaluate obligations (all threads are stopped) */
static int  scn_next_phase(void);			/* at quiescence before tear-down: return 1 if the scenario applied a stimulus of its own */

/* every call-back the library makes into the harness says so (the spin monitor below tells "dispatched nothing" from "busy") */
static __thread uint64_t mt_cbs;
#define MT_CB() (mt_cbs++)

/* from a handler: leave iv_main() now and enter it again at once (the loop keeps everything that is registered) */
static inline void mt_quit_reenter(struct loopthr *lt)
{
	lt->reenter = 1;
	iv_quit();
}

static void mt_ctl_cb(void *cookie)
{
	struct loopthr *lt = cookie;
	char buf[16];
	long n = __real_read(lt->ctl[0], buf, sizeof(buf)), i;

	MT_CB();

	for (i = 0; i < n; i++) {
		scn_ctl(lt, buf[i]);
		if (buf[i] == 'T') {
			lt->torn = 1;
			iv_fd_unregister(lt->ctlfd);
			free(lt->ctlfd);
			lt->ctlfd = NULL;
			return;
		}
	}
}

static void *mt_loop_main(void *v)
{
	struct loopthr *lt = v;

	iv_init();
	lt->ctlfd = malloc(sizeof(struct iv_fd));
	IV_FD_INIT(lt->ctlfd);
	lt->ctlfd->fd = lt->ctl[0];
	lt->ctlfd->cookie = lt;
	lt->ctlfd->handler_in = mt_ctl_cb;
	iv_fd_register(lt->ctlfd);
	scn_setup(lt);
	atomic_store(&lt->ready, 1);
	for (;;) {
		iv_main();
		if (!lt->reenter)
			break;
		lt->reenter = 0;
		lt->reentries++;
	}
	atomic_store(&lt->main_returned, 1);
	scn_after_main(lt);
	iv_deinit();
	return NULL;
}

static void mt_send_ctl(struct loopthr *lt, char c)
{
	if (__real_write(lt->ctl[1], &c, 1) < 0) {}
}

static void mt_start_loops(int n, uint64_t seed)
{
	int i;

	nloops = n;
	atomic_store(&mt_phase, 0);
	for (i = 0; i < n; i++) {
		struct loopthr *lt = &loops[i];
		memset(lt, 0, sizeof(*lt));
		lt->idx = i;
		if (__real_pipe(lt->ctl) < 0) {
			mon_printf("NOTE harness: pipe failed\n");
			_exit(2);
		}
		fcntl(lt->ctl[0], F_SETFL, O_NONBLOCK);
		rng_seed(&lt->rng, seed, 1000 + i);
	}
	for (i = 0; i < n; i++)
		if (pthread_create(&loops[i].th, NULL, mt_loop_main, &loops[i])) {
			mon_printf("NOTE harness: pthread_create failed\n");
			_exit(2);
		}
	for (i = 0; i < n; i++)
		while (!atomic_load(&loops[i].ready))
			sched_yield();
}

static void mt_join_loops(void)
{
	int i;
	for (i = 0; i < nloops; i++) {
		pthread_join(loops[i].th, NULL);
		__real_close(loops[i].ctl[0]);
		__real_close(loops[i].ctl[1]);
	}
}

#ifdef MT_SPIN_MONITOR
/*
 * A loop thread whose poll call reports ready descriptors 3000 times in a row without the library making a single
 * call-back in between dispatches nothing and never blocks: virtual time stands still and no quiescence comes.  The
 * harness says which obligation that leaves open (scn_spin); the case ends here.
 */
static void scn_spin(struct loopthr *lt, struct vt_wait *w);
static __thread uint64_t mt_spin_mark;
static __thread int mt_spin_n;

void hk_wait_return(struct vt_wait *w)
{
	int i;

	if (w->ret > 0 && !w->injected && mt_cbs == mt_spin_mark) {
		if (++mt_spin_n < 3000)
			return;
		for (i = 0; i < nloops; i++)
			if (pthread_equal(loops[i].th, pthread_self()))
				break;
		if (i < nloops)
			scn_spin(&loops[i], w);
		mon_printf("NOTE loop thread spins: 3000 consecutive poll returns with ready descriptors and no call-back\n");
		mon_printf("CASE id=%ld spin=1 viol=%d\n", mon_case_id, mon_viol_case);
		_exit(mon_viol_case ? 3 : 2);
	}
	mt_spin_mark = mt_cbs;
	mt_spin_n = 0;
}
#endif

int hk_quiescent(void)
{
	int i;

	if (atomic_load(&mt_phase) == 0) {
		if (scn_next_phase())
			return 1;
		scn_quiescent_check();
		atomic_store(&mt_phase, 1);
		for (i = 0; i < nloops; i++)
			if (!loops[i].main_returned)
				mt_send_ctl(&loops[i], 'T');
		return 1;
	}
	return 0;
}

static void scn_dead_end(void);		/* tear-down was requested and still nothing can happen */

void hk_dead_end(void)
{
	scn_dead_end();
	mon_printf("CASE id=%ld dead_end=1 viol=%d\n", mon_case_id, mon_viol_case);
	_exit(3);
}

/* thread accounting: every pthread_create must be matched by a join or a detach */
static _Atomic long n_thr_created, n_thr_joined, n_thr_detached;
#ifndef MT_OWN_THREAD_HOOKS
void hk_thread_create(unsigned long th, int ret) { (void)th; if (!ret) atomic_fetch_add(&n_thr_created, 1); }
void hk_thread_join(unsigned long th) { (void)th; atomic_fetch_add(&n_thr_joined, 1); }
#endif
void hk_thread_detach(unsigned long th) { (void)th; atomic_fetch_add(&n_thr_detached, 1); }

static void mt_fatal(const char *msg)
{
	char key[96];
	int i;
	for (i = 0; msg[i] && i < 90; i++) {
		if ((msg[i] >= '0' && msg[i] <= '9') || msg[i] == '[')
			break;
		key[i] = msg[i] == ' ' ? '_' : msg[i];
	}
	key[i] = 0;
	mon_viol("C18", "iv_fatal", key, "library called iv_fatal: %s", msg);
	mon_viol(g_prop, "iv_fatal", key, "library called iv_fatal: %s", msg);
}

/* is a process-directed SIGCHLD waiting to be delivered? (used when a harness decides that a child is done and the library idle) */
#include <fcntl.h>
int __real_clock_gettime(clockid_t, struct timespec *);
static int __attribute__((unused)) mt_sigchld_pending(void)
{
	char buf[2048], *p;
	int fd = open("/proc/self/status", O_RDONLY), n;
	unsigned long long shd = ~0ULL;
	if (fd < 0)
		return 1;
	n = (int)__real_read(fd, buf, sizeof(buf) - 1);
	__real_close(fd);
	if (n <= 0)
		return 1;
	buf[n] = 0;
	p = strstr(buf, "ShdPnd:");
	if (p != NULL)
		shd = strtoull(p + 7, NULL, 16);
	return (shd >> (SIGCHLD - 1)) & 1;
}

static inline int64_t __attribute__((unused)) mt_real_ns(void)
{
	struct timespec ts;
	__real_clock_gettime(CLOCK_MONOTONIC, &ts);
	return (int64_t)ts.tv_sec * 1000000000LL + ts.tv_nsec;
}

/*
 * After every loop thread of a case has been joined (each ran iv_deinit or exited), no per-thread descriptor of the library may
 * be left: an epoll instance or a timer descriptor that is still open belongs to a thread that no longer exists.  (Event
 * descriptors can be process-wide and are judged by the growth rule of C18 instead.)
 */
#include <dirent.h>
static void __attribute__((unused)) mt_check_thread_fds(const char *method)
{
	DIR *d = opendir("/proc/self/fd");
	struct dirent *de;
	char path[64], tgt[128];

	if (d == NULL)
		return;
	while ((de = readdir(d)) != NULL) {
		long n;
		if (de->d_name[0] < '0' || de->d_name[0] > '9')
			continue;
		snprintf(path, sizeof(path), "/proc/self/fd/%s", de->d_name);
		n = readlink(path, tgt, sizeof(tgt) - 1);
		if (n <= 0)
			continue;
		tgt[n] = 0;
		if (strstr(tgt, "[timerfd]") != NULL || strstr(tgt, "[eventpoll]") != NULL)
			mon_viol("C18", "thread-descriptor-left", method, "descriptor %s (%s) is still open although every loop thread of the case has been torn down", de->d_name, tgt);
	}
	closedir(d);
}

static void mt_learn_method(void)
{
	iv_init();
	g_method = iv_poll_method_name();
	iv_deinit();
}

#endif
