/*
 * vt.h - system-call boundary shim for the ivykis runtime monitors.
 *
 * Linked into every harness together with the library objects and
 * -Wl,--wrap=<sym> for each symbol in lib/wrap.list.  See DESIGN.md 2.2.
 */
#ifndef VT_H
#define VT_H

#ifndef _GNU_SOURCE
#define _GNU_SOURCE
#endif
#include <stdint.h>
#include <stddef.h>
#include <poll.h>
#include <signal.h>
#include <sys/epoll.h>
#include <sys/types.h>
#include <sys/resource.h>

#define VT_INF		INT64_MAX
#define VT_NS		1000000000LL

enum vt_wait_kind { VT_EPOLL_PWAIT2, VT_EPOLL_WAIT, VT_PPOLL, VT_POLL };

/* what the shim tells the harness about one call of a loop wait primitive */
struct vt_wait {
	int			kind;
	int			thr;		/* shim thread slot */
	uint64_t		seq;		/* per-thread wait number (1..) */
	int			epfd;
	struct epoll_event	*ev;		/* epoll kinds */
	int			maxev;
	struct pollfd		*pfd;		/* poll kinds */
	int			npfd;
	int64_t			timeout_ns;	/* requested: -1 infinite */
	int			ms_granular;	/* primitive takes milliseconds */
	int64_t			v_enter;	/* virtual time at entry */
	int64_t			deadline;	/* wake deadline D (VT_INF if none) */
	int			ret;		/* at return */
	int			err;		/* errno at return if ret < 0 */
	int			injected;	/* this return was an injected fault */
};

/*
 * Harness call-backs (weak no-op defaults in vt.c; a harness overrides what it needs).
 * They are invoked in the calling thread, outside any shim lock unless said otherwise.
 */
void hk_wait_enter(struct vt_wait *w);
void hk_wait_return(struct vt_wait *w);
void hk_wait_block(struct vt_wait *w);	/* zero-time-out probe found nothing, the thread is about to block */
/* nothing can happen any more: return 1 if a stimulus was applied, 0 = dead end */
int  hk_quiescent(void);
/* called at every detected quiescence (all threads blocked, nothing in flight), before virtual time is advanced */
void hk_idle(void);
void hk_deadlock(const char *kind, const char *desc);	/* default: prints a DEADLOCK line and _exit(4) */
void hk_dead_end(void);			/* hk_quiescent returned 0: harness reports + ends the case */
void hk_write(int fd, const void *buf, size_t n, long ret, int err, int fl_nonblock);
void hk_read(int fd, const void *buf, size_t n, long ret, int err);
void hk_close(int fd);
void hk_read_pre(int fd);		/* just before the real read(2) */
void hk_write_pre(int fd);	/* just before the real write(2) */
void hk_splice(int fdin, int fdout, size_t len, long ret, int err);
void hk_wait4(pid_t pid_arg, int options, pid_t ret, int status);
void hk_kill(pid_t pid, int sig, int ret, int err);
void hk_kill_pre(pid_t pid, int sig);	/* just before the real kill(2): a place for a delay */
void hk_fork(pid_t ret);
void hk_sigaction(int signum, const struct sigaction *act);
void hk_sig_enter(int signum);
void hk_sig_exit(int signum);
void hk_thread_create(unsigned long th, int ret);
void hk_thread_join(unsigned long th);
void hk_thread_detach(unsigned long th);
void hk_thread_exit(void);		/* last TLS destructor round of a thread */
void hk_fd_created(int fd, const char *what);	/* descriptor created by the library */
void hk_injected(const char *call, int err);
void hk_ext_stuck(void);			/* external actors pending, every thread blocked and confirmed: harness may write one off */
void hk_ext_poll(void);			/* while external actors pending: harness polls side channels */
void hk_epoll_ctl(int epfd, int op, int fd, struct epoll_event *ev, int ret, int err);
void hk_inotify_init(int fd);

/* ---- control ---- */
void vt_init(void);			/* reads VT_* environment */
void vt_reset_case(uint64_t seed);	/* per case: clears virtual timers, stimuli, re-seeds perturbation */
int  vt_self(void);			/* shim slot of the calling thread */
int64_t vt_now(void);			/* virtual CLOCK_MONOTONIC, ns */
void vt_burn(int64_t ns);		/* advance virtual time (caller must iv_invalidate_now()) */
void vt_set_single(int on);		/* single-thread discrete-event mode (1us tick on empty polls) */
void vt_set_perturb(int level);		/* 0 none, 1.. free-mode perturbation */
void vt_set_virtual(int on);		/* 0: pass time through (tsan build) */

/* stimuli: fn(arg) runs in the thread that detected quiescence when virtual time reaches t;
 * arg must be malloc'ed (or NULL): it is freed by fn, or by the shim if the stimulus is dropped */
typedef void (*vt_stim_fn)(void *arg);
void vt_stim_at(int64_t t_abs_ns, vt_stim_fn fn, void *arg);
int  vt_stim_pending(void);
void vt_interrupt_wait(void);		/* from a stimulus function: the deciding thread's wait returns EINTR (a signal arrived at this virtual instant) */

/* harness-side blocking (join, barrier ...) so that the quiescence account stays right */
void vt_mark_child(void);		/* in a child made by a raw fork/clone system call */
void vt_block_begin(void);
void vt_block_end(void);
/* external actors (child processes): number of actions whose effect was not yet observed */
void vt_ext_add(int n);
int  vt_ext_pending(void);
void vt_activity(void);			/* something changed outside the shim's view: invalidate confirmations */

/* flag set by the harness around iv_fd_register_try (poll() inside is not a loop wait) */
extern __thread int vt_in_register_try;
/* thread-local: this thread is not a participant (helper threads of the harness) */
extern __thread int vt_nonparticipant;
/* thread-local: no schedule perturbation in this thread for now (long bursts) */
extern __thread int vt_no_perturb;

/* fault plans: "call:ERRNO@k[+],..."  e.g. "wait:EINTR@3,epoll_pwait2:ENOSYS@1+" */
int  vt_fault_plan(const char *plan);	/* returns number of entries parsed, -1 on error */
void vt_fault_clear(void);
uint64_t vt_call_count(const char *call);
uint64_t vt_fault_fired(void);

/* statistics */
struct vt_stats {
	uint64_t waits, waits_blocked, quiescences, time_advances, stimuli, timerfd_fires,
		 perturb_yield, perturb_sleep, injected, threads_created, sig_deliveries, stale_errno, pct_changes, pct_deferrals;
};
extern struct vt_stats vt_stats;

/* real functions, for harness use */
int __real_poll(struct pollfd *fds, nfds_t nfds, int timeout);
long __real_read(int fd, void *buf, size_t n);
long __real_write(int fd, const void *buf, size_t n);
int __real_close(int fd);
int __real_pipe(int fd[2]);
int __real_kill(pid_t pid, int sig);
pid_t __real_fork(void);
pid_t __real_wait4(pid_t pid, int *st, int opt, struct rusage *ru);
int __real_sigaction(int signum, const struct sigaction *act, struct sigaction *old);
int __real_pthread_join(unsigned long th, void **ret);

/* harness-side wrappers that account for blocking */
int vt_join(unsigned long th);		/* pthread_join with vt_block_* */

#endif
