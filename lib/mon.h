/*
 * mon.h - helpers shared by the harnesses: violation reporting, counters, PRNG.
 * All output goes through write(2) (see DESIGN.md 2.3: sanitizer exit paths drop stdio buffers).
 *
 * Line formats parsed by ./check:
 *   VIOL prop=<id> rule=<rule> key=<stable key> case=<case id> :: <free text>
 *   NOTE <free text>
 *   CASE id=<n> <k=v ...>
 *   SAMPLE <free text>
 *   STAT <name>=<value> ...
 */
#ifndef MON_H
#define MON_H

#include <stdarg.h>
#include <stdint.h>
#include <stdio.h>
#include <stdlib.h>
#include <string.h>
#include <unistd.h>

long __real_write(int fd, const void *buf, size_t n);

static int mon_out_fd = 1;
static long mon_case_id = -1;
static int mon_viol_case;		/* violations in the current case */
static int mon_viol_total;
static int mon_viol_printed;

static inline void mon_emit(const char *s, size_t n)
{
	while (n > 0) {
		long r = __real_write(mon_out_fd, s, n);
		if (r <= 0)
			break;
		s += r;
		n -= (size_t)r;
	}
}

static void mon_printf(const char *fmt, ...) __attribute__((format(printf, 1, 2)));
static void mon_printf(const char *fmt, ...)
{
	char buf[2048];
	va_list ap;
	int n;

	va_start(ap, fmt);
	n = vsnprintf(buf, sizeof(buf), fmt, ap);
	va_end(ap);
	if (n < 0)
		return;
	if (n >= (int)sizeof(buf))
		n = sizeof(buf) - 1;
	mon_emit(buf, (size_t)n);
}

static void mon_viol(const char *prop, const char *rule, const char *key, const char *fmt, ...)
	__attribute__((format(printf, 4, 5)));
static void mon_viol(const char *prop, const char *rule, const char *key, const char *fmt, ...)
{
	char msg[1024];
	va_list ap;

	mon_viol_case++;
	mon_viol_total++;
	if (mon_viol_printed >= 200)
		return;
	mon_viol_printed++;
	va_start(ap, fmt);
	vsnprintf(msg, sizeof(msg), fmt, ap);
	va_end(ap);
	mon_printf("VIOL prop=%s rule=%s key=%s case=%ld :: %s\n", prop, rule, key, mon_case_id, msg);
}

/* splitmix / xorshift PRNG */
struct rng { uint64_t s; };

static inline uint64_t mix64(uint64_t z)
{
	z += 0x9E3779B97F4A7C15ULL;
	z = (z ^ (z >> 30)) * 0xBF58476D1CE4E5B9ULL;
	z = (z ^ (z >> 27)) * 0x94D049BB133111EBULL;
	return z ^ (z >> 31);
}

static inline void rng_seed(struct rng *r, uint64_t a, uint64_t b)
{
	r->s = mix64(mix64(a) ^ (b * 0xD1342543DE82EF95ULL));
	if (!r->s)
		r->s = 1;
}

static inline uint64_t rng_u64(struct rng *r)
{
	uint64_t x = r->s;
	x ^= x << 13; x ^= x >> 7; x ^= x << 17;
	r->s = x;
	return x * 0x2545F4914F6CDD1DULL;
}

static inline unsigned rng_n(struct rng *r, unsigned n)	/* 0..n-1 */
{
	return n ? (unsigned)((rng_u64(r) >> 33) % n) : 0;
}

static inline int rng_pct(struct rng *r, unsigned pct)
{
	return rng_n(r, 100) < pct;
}

static inline uint64_t hash_step(uint64_t h, uint64_t v)
{
	return mix64(h ^ (v + 0x9E3779B97F4A7C15ULL + (h << 6) + (h >> 2)));
}

/* generous wall-clock watchdog around one case: firing is inconclusive (exit 2) unless the case already reported a violation (exit 3) */
#include <signal.h>
#include <sys/time.h>
int __real_sigaction(int signum, const struct sigaction *act, struct sigaction *old);

void vt_debug_dump(void) __attribute__((weak));
static void (*mon_watchdog_dump)(void);	/* optional: harness state for the log (diagnosis of an inconclusive case) */

static void mon_watchdog_fire(int sig)
{
	static const char m[] = "NOTE watchdog: case did not finish in time\n";
	(void)sig;
	if (__real_write(mon_out_fd, m, sizeof(m) - 1) < 0) {}
	if (mon_watchdog_dump != NULL)
		mon_watchdog_dump();
	if (vt_debug_dump)
		vt_debug_dump();	/* the shim's account of who is running / blocked (weak no-op without the shim) */
	_exit(mon_viol_case ? 3 : 2);
}

static inline void mon_watchdog(int seconds)
{
	static int installed;
	struct itimerval it;

	if (!installed) {
		struct sigaction sa;
		memset(&sa, 0, sizeof(sa));
		sa.sa_handler = mon_watchdog_fire;
		__real_sigaction(SIGALRM, &sa, NULL);
		installed = 1;
	}
	memset(&it, 0, sizeof(it));
	it.it_value.tv_sec = seconds;
	setitimer(ITIMER_REAL, &it, NULL);
}

static inline const char *arg_str(int argc, char **argv, const char *name, const char *def)
{
	int i;
	for (i = 1; i + 1 < argc; i++)
		if (!strcmp(argv[i], name))
			return argv[i + 1];
	return def;
}

static inline long long arg_ll(int argc, char **argv, const char *name, long long def)
{
	const char *s = arg_str(argc, argv, name, NULL);
	return s ? strtoll(s, NULL, 0) : def;
}

static inline int arg_flag(int argc, char **argv, const char *name)
{
	int i;
	for (i = 1; i < argc; i++)
		if (!strcmp(argv[i], name))
			return 1;
	return 0;
}

#endif
