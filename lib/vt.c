/*
 * vt.c - system-call boundary shim: observation, virtual time, quiescence
 * detection, schedule perturbation, fault plans.  See DESIGN.md 2.2.
 *
 * Every __wrap_X below is reached from the ivykis objects (and the harness)
 * through -Wl,--wrap=X; the shim itself always calls __real_X.
 */
#ifndef _GNU_SOURCE
#define _GNU_SOURCE
#endif
#include <errno.h>
#include <fcntl.h>
#include <pthread.h>
#include <sched.h>
#include <signal.h>
#include <stdarg.h>
#include <stdatomic.h>
#include <stdio.h>
#include <stdlib.h>
#include <string.h>
#include <time.h>
#include <unistd.h>
#include <sys/epoll.h>
#include <sys/syscall.h>
#include <sys/timerfd.h>
#include <sys/wait.h>
#include <dlfcn.h>
#include "vt.h"

/* ---- real symbols ---------------------------------------------------- */
int __real_epoll_wait(int, struct epoll_event *, int, int);
int __real_epoll_pwait2(int, struct epoll_event *, int, const struct timespec *, const sigset_t *);
int __real_ppoll(struct pollfd *, nfds_t, const struct timespec *, const sigset_t *);
int __real_clock_gettime(clockid_t, struct timespec *);
int __real_timerfd_create(int, int);
int __real_timerfd_settime(int, int, const struct itimerspec *, struct itimerspec *);
long __real_syscall(long, ...);
int __real_epoll_create(int);
int __real_epoll_ctl(int, int, int, struct epoll_event *);
int __real_inotify_init(void);
long __real_splice(int, off_t *, int, off_t *, size_t, unsigned int);
int __real_pthread_create(pthread_t *, const pthread_attr_t *, void *(*)(void *), void *);
int __real_pthread_detach(pthread_t);
int __real_pthread_mutex_lock(pthread_mutex_t *);
int __real_pthread_mutex_unlock(pthread_mutex_t *);
int __real_pthread_spin_lock(pthread_spinlock_t *);
int __real_pthread_spin_unlock(pthread_spinlock_t *);

/* ---- weak default hooks --------------------------------------------- */
#define WEAK __attribute__((weak))
WEAK void hk_wait_enter(struct vt_wait *w) { (void)w; }
WEAK void hk_wait_return(struct vt_wait *w) { (void)w; }
WEAK void hk_wait_block(struct vt_wait *w) { (void)w; }
WEAK int  hk_quiescent(void) { return 0; }
WEAK void hk_idle(void) { }
void hk_deadlock(const char *kind, const char *desc);
WEAK void hk_dead_end(void)
{
	static const char m[] = "VT dead end: nothing can happen any more and no harness hook\n";
	if (__real_write(2, m, sizeof(m) - 1) < 0) {}
	_exit(3);
}
WEAK void hk_write(int fd, const void *b, size_t n, long r, int e, int nb) { (void)fd; (void)b; (void)n; (void)r; (void)e; (void)nb; }
WEAK void hk_read(int fd, const void *b, size_t n, long r, int e) { (void)fd; (void)b; (void)n; (void)r; (void)e; }
WEAK void hk_close(int fd) { (void)fd; }
WEAK void hk_write_pre(int fd) { (void)fd; }
WEAK void hk_read_pre(int fd) { (void)fd; }
WEAK void hk_splice(int fi, int fo, size_t n, long r, int e) { (void)fi; (void)fo; (void)n; (void)r; (void)e; }
WEAK void hk_wait4(pid_t a, int o, pid_t r, int s) { (void)a; (void)o; (void)r; (void)s; }
WEAK void hk_kill(pid_t p, int s, int r, int e) { (void)p; (void)s; (void)r; (void)e; }
WEAK void hk_fork(pid_t r) { (void)r; }
WEAK void hk_sigaction(int s, const struct sigaction *a) { (void)s; (void)a; }
WEAK void hk_sig_enter(int s) { (void)s; }
WEAK void hk_sig_exit(int s) { (void)s; }
WEAK void hk_thread_create(unsigned long t, int r) { (void)t; (void)r; }
WEAK void hk_thread_join(unsigned long t) { (void)t; }
WEAK void hk_thread_detach(unsigned long t) { (void)t; }
WEAK void hk_thread_exit(void) { }
WEAK void hk_fd_created(int fd, const char *w) { (void)fd; (void)w; }
WEAK void hk_injected(const char *c, int e) { (void)c; (void)e; }
WEAK void hk_ext_poll(void) { }
WEAK void hk_kill_pre(pid_t pid, int sig) { (void)pid; (void)sig; }
WEAK void hk_ext_stuck(void) { }
WEAK void hk_epoll_ctl(int ep, int op, int fd, struct epoll_event *ev, int r, int e) { (void)ep; (void)op; (void)fd; (void)ev; (void)r; (void)e; }
WEAK void hk_inotify_init(int fd) { (void)fd; }

/* ---- state ------------------------------------------------------------ */
enum { T_FREE, T_RUNNING, T_BLOCKED_LOOP, T_BLOCKED_OTHER, T_WAKING, T_EXITED };

#define MAXT 256
struct vthr {
	_Atomic int		state;
	_Atomic uint64_t	confirmed;	/* epoch at which an empty poll completed */
	_Atomic int64_t		deadline;	/* BLOCKED_LOOP: V + timeout or VT_INF */
	_Atomic int		tfd;		/* timerfd owned by this thread or -1 */
	_Atomic uint64_t	nwaits;
	uint64_t		rng;
	int			exit_round;
	int			wake_eintr;
	pthread_t		pth;
	_Atomic int		tid;
	_Atomic uint32_t	prio;		/* priority mode: this thread's priority in the current case */
	_Atomic uint64_t	prio_case;
	pthread_mutex_t *_Atomic	wait_m;		/* mutex this thread is blocked on (contended lock), or NULL */
	void			*wait_ra;	/* ... and the caller of that pthread_mutex_lock() */
	uint64_t		dl_sig;
	int			dl_streak;
	_Atomic int		has_pth, detached;	/* leave the wait with EINTR (simulated signal at a point in virtual time) */
};
static struct vthr thr[MAXT];
static _Atomic int nslots;
static __thread int my_slot = -1;
__thread int vt_in_register_try;
__thread int vt_nonparticipant;
__thread int vt_no_perturb;

static _Atomic int running = 1;		/* the main thread */
static _Atomic uint64_t epoch = 1;
static _Atomic int ext_pending;
static _Atomic int64_t V = 1000 * VT_NS;	/* virtual CLOCK_MONOTONIC */
static pthread_mutex_t Q = PTHREAD_MUTEX_INITIALIZER;	/* serialises quiescence deciders + stimuli list */
static int single_mode;
static int perturb_level, perturb_env;
static int virtual_on = 1;
static int in_child;
static pthread_key_t exit_key;
static int exit_key_ok;
static uint64_t case_seed = 1;
static pthread_t main_pth;
static int main_set;
struct vt_stats vt_stats;

/* virtual timerfds, indexed by descriptor */
#define MAXFD 4096
static struct vtfd { _Atomic int used, armed, fired; _Atomic int64_t expiry; } vtfd[MAXFD];
/* descriptors created by the library (eventfd / pipes) */
static unsigned char libfd[MAXFD];

/* stimuli */
#define MAXSTIM 256
static struct stim { int64_t t; uint64_t ord; vt_stim_fn fn; void *arg; } stims[MAXSTIM];
static int nstim;
static uint64_t stim_ord;

static inline uint64_t xs(uint64_t *s)
{
	uint64_t x = *s;
	x ^= x << 13; x ^= x >> 7; x ^= x << 17;
	return *s = x;
}

static int slot_alloc(void)
{
	int i;
	for (i = 0; i < MAXT; i++) {
		int exp = T_FREE;
		if (atomic_compare_exchange_strong(&thr[i].state, &exp, T_RUNNING)) {
			thr[i].confirmed = 0;
			thr[i].deadline = VT_INF;
			thr[i].tfd = -1;
			thr[i].nwaits = 0;
			thr[i].exit_round = 0;
			thr[i].has_pth = 0;
			thr[i].detached = 0;
			thr[i].wake_eintr = 0;
			thr[i].tid = (int)__real_syscall(SYS_gettid);
			thr[i].wait_m = NULL;
			thr[i].dl_streak = 0;
			thr[i].rng = (case_seed * 0x9E3779B97F4A7C15ULL) ^ ((uint64_t)(i + 1) << 32) ^ 0x5DEECE66DULL;
			{	/* atomic maximum: two threads may take their first slots at the same moment */
				int cur = atomic_load(&nslots);
				while (cur < i + 1 && !atomic_compare_exchange_weak(&nslots, &cur, i + 1))
					;
			}
			return i;
		}
	}
	{
		static const char m[] = "VT: out of thread slots\n";
		if (__real_write(2, m, sizeof(m) - 1) < 0) {}
	}
	_exit(2);
}

int vt_self(void)
{
	if (my_slot < 0)
		my_slot = slot_alloc();
	return my_slot;
}

int64_t vt_now(void) { return V; }
void vt_burn(int64_t ns) { if (ns > 0) atomic_fetch_add(&V, ns); }
void vt_set_single(int on) { single_mode = on; }
void vt_set_perturb(int l) { if (!perturb_env) perturb_level = l; }
void vt_set_virtual(int on) { virtual_on = on; }
void vt_ext_add(int n) { atomic_fetch_add(&epoch, 1); atomic_fetch_add(&ext_pending, n); atomic_fetch_add(&epoch, 1); }
int  vt_ext_pending(void) { return ext_pending; }
void vt_activity(void) { atomic_fetch_add(&epoch, 1); }

/* ---- perturbation ------------------------------------------------------ */
/*
 * Priority mode (VT_PERTURB=2), after PCT (Burckhardt et al., ASPLOS 2010) but cooperative: every thread gets a random
 * priority per case; at each perturbation point (wrapped lock, kick, wait, descriptor call) a thread that is outranked by
 * another running thread steps aside for a few short sleeps, and at d = 3 randomly chosen global steps of the case the
 * thread that reaches the step drops below everybody else.  Unlike the uniform mode this keeps one thread ahead of the
 * others for long stretches and then reverses the order at a few points, which is what ordering bugs of small depth need.
 * The sleeps are bounded, so nothing can dead-lock on the scheduler itself.
 */
static _Atomic uint64_t pct_steps;
static uint64_t pct_change[3];
static _Atomic uint32_t pct_low = 1000;

static void pct_reset(uint64_t seed)
{
	uint64_t x = seed * 0xD1342543DE82EF95ULL + 12345;
	int i;
	pct_steps = 0;
	pct_low = 1000;
	for (i = 0; i < 3; i++) {
		x ^= x << 13; x ^= x >> 7; x ^= x << 17;
		pct_change[i] = 1 + (x >> 11) % (i == 0 ? 60 : i == 1 ? 400 : 3000);
	}
}

static void pct_point(void)
{
	struct vthr *me;
	uint64_t step;
	int i, tries;

	if (my_slot < 0)
		return;		/* (a signal handler on a thread that has no slot yet) */
	me = &thr[my_slot];
	if (me->prio_case != case_seed) {
		me->prio_case = case_seed;
		me->prio = 2000 + (uint32_t)(((case_seed ^ ((uint64_t)(my_slot + 1) * 0x9E3779B97F4A7C15ULL)) >> 17) % 100000);
	}
	step = atomic_fetch_add(&pct_steps, 1) + 1;
	for (i = 0; i < 3; i++)
		if (step == pct_change[i]) {
			me->prio = atomic_fetch_sub(&pct_low, 1);
			vt_stats.pct_changes++;
		}
	for (tries = 0; tries < 4; tries++) {
		int n = nslots, outranked = 0;
		for (i = 0; i < n; i++)
			if (i != my_slot && thr[i].state == T_RUNNING && thr[i].prio_case == case_seed && thr[i].prio > me->prio) {
				outranked = 1;
				break;
			}
		if (!outranked)
			break;
		{
			struct timespec ts = { 0, 60000 };
			nanosleep(&ts, NULL);
		}
		vt_stats.pct_deferrals++;
	}
}

static void perturb(void)
{
	static __thread uint64_t tl_rng, tl_rng_case;
	uint64_t r;
	unsigned bias;

	if (!perturb_level || in_child || vt_no_perturb)
		return;
	if (perturb_level == 2) {
		pct_point();
		return;
	}
	if (tl_rng_case != case_seed || !tl_rng) {
		/* thread-local generator, re-seeded per case; never allocates a thread slot (may run in a signal handler on a thread that has none yet) */
		tl_rng_case = case_seed;
		tl_rng = (case_seed * 0x9E3779B97F4A7C15ULL) ^ ((uint64_t)(uintptr_t)&tl_rng << 17) ^ 0x5DEECE66DULL;
		if (!tl_rng)
			tl_rng = 1;
	}
	r = xs(&tl_rng);
	/* swarm-style per-case bias derived from the case seed: 0 quiet, 1 yields, 2 sleeps, 3 heavy */
	bias = (unsigned)((case_seed >> 3) & 3);
	switch (bias) {
	case 0:
		if ((r & 63) == 0) { sched_yield(); vt_stats.perturb_yield++; }
		break;
	case 1:
		if ((r & 3) == 0) { sched_yield(); vt_stats.perturb_yield++; }
		break;
	case 2:
		if ((r & 7) == 0) {
			struct timespec ts = { 0, 1000 * (1 + (long)((r >> 8) % 200)) };
			nanosleep(&ts, NULL);
			vt_stats.perturb_sleep++;
		} else if ((r & 7) == 1) { sched_yield(); vt_stats.perturb_yield++; }
		break;
	default:
		if ((r & 3) == 0) {
			struct timespec ts = { 0, 1000 * (1 + (long)((r >> 8) % 400)) };
			nanosleep(&ts, NULL);
			vt_stats.perturb_sleep++;
		} else if ((r & 3) == 1) { sched_yield(); vt_stats.perturb_yield++; }
		break;
	}
}

/* ---- stale errno ---------------------------------------------------------
 * A successful call leaves errno unspecified.  With VT_STALE_ERRNO=1 every wrapped call that succeeds leaves a
 * plausible stale error code behind (as an earlier, unrelated failure in the same thread would have): code that looks
 * at errno without having seen a failure is led astray.
 */
static int stale_errno;
static __thread uint64_t stale_rng;
static inline void errno_after(long r, int e)
{
	static const int stale[] = { EPERM, ENOSYS, EINTR, EAGAIN, ENOSYS, EBADF, EPERM, EINVAL, ENOENT, EINTR, EEXIST };
	if (r >= 0 && stale_errno && !in_child) {
		if (stale_rng == 0)
			stale_rng = (case_seed * 0x9E3779B97F4A7C15ULL) | 1;
		if (stale_errno == 2) {
			/* sticky: one old failure code for the whole case, as errno really behaves between two failing calls */
			static const int sticky[] = { EINTR, EAGAIN, EPERM, ENOSYS, EINTR, EBADF };
			errno = sticky[(case_seed >> 7) % (sizeof(sticky) / sizeof(sticky[0]))];
		} else
		errno = stale[(xs(&stale_rng) >> 20) % (sizeof(stale) / sizeof(stale[0]))];
		vt_stats.stale_errno++;
	} else {
		errno = e;
	}
}

/* ---- fault plans ------------------------------------------------------- */
#define MAXFAULT 16
static struct fault { char name[24]; int err; uint64_t k; int plus; uint64_t fired; } faults[MAXFAULT];
static int nfaults;
static struct ccount { char name[24]; _Atomic uint64_t n; } ccounts[32];
static _Atomic uint64_t faults_fired;

static struct ccount *ccount_get(const char *name)
{
	int i;
	for (i = 0; i < 32; i++) {
		if (!ccounts[i].name[0]) {
			strncpy(ccounts[i].name, name, sizeof(ccounts[i].name) - 1);
			return &ccounts[i];
		}
		if (!strcmp(ccounts[i].name, name))
			return &ccounts[i];
	}
	return &ccounts[31];
}

static int errno_by_name(const char *s)
{
	static const struct { const char *n; int e; } tab[] = {
		{ "EINTR", EINTR }, { "ENOSYS", ENOSYS }, { "EPERM", EPERM }, { "EMFILE", EMFILE },
		{ "EINVAL", EINVAL }, { "EBADF", EBADF }, { "EAGAIN", EAGAIN }, { "ENOMEM", ENOMEM },
		{ "EPIPE", EPIPE }, { "EIO", EIO }, { "ENFILE", ENFILE },
	};
	unsigned i;
	for (i = 0; i < sizeof(tab) / sizeof(tab[0]); i++)
		if (!strcmp(tab[i].n, s))
			return tab[i].e;
	return atoi(s);
}

void vt_fault_clear(void)
{
	int i;
	nfaults = 0;
	faults_fired = 0;
	for (i = 0; i < 32; i++)
		ccounts[i].n = 0;
}

int vt_fault_plan(const char *plan)
{
	char buf[512], *p, *tok, *save;

	nfaults = 0;
	if (plan == NULL || !*plan)
		return 0;
	strncpy(buf, plan, sizeof(buf) - 1);
	buf[sizeof(buf) - 1] = 0;
	for (p = buf; (tok = strtok_r(p, ",", &save)) != NULL; p = NULL) {
		char *c = strchr(tok, ':'), *a;
		struct fault *f;
		if (c == NULL || nfaults == MAXFAULT)
			return -1;
		*c++ = 0;
		a = strchr(c, '@');
		if (a == NULL)
			return -1;
		*a++ = 0;
		f = &faults[nfaults++];
		memset(f, 0, sizeof(*f));
		strncpy(f->name, tok, sizeof(f->name) - 1);
		f->err = errno_by_name(c);
		f->k = strtoull(a, &a, 10);
		f->plus = (*a == '+');
	}
	return nfaults;
}

/* counts the call and returns the errno to inject (0 = none) */
static int fault_check(const char *name)
{
	uint64_t n = atomic_fetch_add(&ccount_get(name)->n, 1) + 1;
	int i;

	if (in_child)
		return 0;
	for (i = 0; i < nfaults; i++) {
		struct fault *f = &faults[i];
		if (strcmp(f->name, name))
			continue;
		if (n == f->k || (f->plus && n > f->k)) {
			f->fired++;
			faults_fired++;
			vt_stats.injected++;
			hk_injected(name, f->err);
			return f->err;
		}
	}
	return 0;
}

uint64_t vt_call_count(const char *call) { return ccount_get(call)->n; }
uint64_t vt_fault_fired(void) { return faults_fired; }

/* ---- stimuli ----------------------------------------------------------- */
void vt_stim_at(int64_t t, vt_stim_fn fn, void *arg)
{
	__real_pthread_mutex_lock(&Q);
	if (nstim == MAXSTIM) {
		free(arg);
	} else {
		stims[nstim].t = t;
		stims[nstim].ord = stim_ord++;
		stims[nstim].fn = fn;
		stims[nstim].arg = arg;
		nstim++;
	}
	__real_pthread_mutex_unlock(&Q);
}

int vt_stim_pending(void) { return nstim; }

void vt_reset_case(uint64_t seed)
{
	int i;
	__real_pthread_mutex_lock(&Q);
	for (i = 0; i < nstim; i++)
		free(stims[i].arg);	/* stimulus arguments are malloc'ed (or NULL) by contract */
	nstim = 0;
	V = 1000 * VT_NS;	/* every case starts at the same virtual instant (and virtual time cannot creep towards overflow over a long run) */
	case_seed = seed ? seed : 1;
	pct_reset(case_seed);
	for (i = 0; i < nslots; i++)
		if (thr[i].state != T_FREE)
			thr[i].rng = (case_seed * 0x9E3779B97F4A7C15ULL) ^ ((uint64_t)(i + 1) << 32) ^ 0x5DEECE66DULL;
	__real_pthread_mutex_unlock(&Q);
}

/* ---- thread accounting -------------------------------------------------- */
void vt_block_begin(void)
{
	struct vthr *t = &thr[vt_self()];
	atomic_store(&t->state, T_BLOCKED_OTHER);
	atomic_fetch_add(&epoch, 1);
	atomic_fetch_sub(&running, 1);
}

void vt_block_end(void)
{
	struct vthr *t = &thr[vt_self()];
	atomic_fetch_add(&running, 1);
	atomic_fetch_add(&epoch, 1);
	atomic_store(&t->state, T_RUNNING);
}

static void exit_dtor(void *v)
{
	struct vthr *t = v;

	if (t->exit_round++ == 0) {
		/* run again in the next destructor round, after the library's destructors */
		pthread_setspecific(exit_key, t);
		return;
	}
	hk_thread_exit();
	if (t->has_pth && !t->detached) {
		/*
		 * A joinable thread keeps its place in the "running" account until it has been joined:
		 * the joiner inherits it.  (Giving it up here would open a window in which the joiner is
		 * still counted as blocked although nothing keeps it from running.)
		 */
		int exp = T_RUNNING;
		if (atomic_compare_exchange_strong(&t->state, &exp, T_EXITED)) {
			atomic_fetch_add(&epoch, 1);
			if (t->detached) {	/* detached in the meantime */
				exp = T_EXITED;
				if (atomic_compare_exchange_strong(&t->state, &exp, T_FREE)) {
					atomic_fetch_add(&epoch, 1);
					atomic_fetch_sub(&running, 1);
				}
			}
			return;
		}
	}
	t->has_pth = 0;
	atomic_store(&t->state, T_FREE);
	atomic_fetch_add(&epoch, 1);
	atomic_fetch_sub(&running, 1);
}

struct tramp { void *(*fn)(void *); void *arg; };

static void *thread_tramp(void *v)
{
	struct tramp tr = *(struct tramp *)v;

	free(v);
	if (my_slot < 0)		/* (a signal handler that ran on this new thread may already have given it a slot) */
		my_slot = slot_alloc();	/* already counted as running by the creator */
	thr[my_slot].pth = pthread_self();
	thr[my_slot].detached = 0;
	thr[my_slot].has_pth = 1;
	if (exit_key_ok)
		pthread_setspecific(exit_key, &thr[my_slot]);
	return tr.fn(tr.arg);
}

int __wrap_pthread_create(pthread_t *th, const pthread_attr_t *attr, void *(*fn)(void *), void *arg)
{
	struct tramp *tr;
	int ret;

	if (!virtual_on || vt_nonparticipant)
		return __real_pthread_create(th, attr, fn, arg);
	/* fault "thread_create": only threads that are not created by the main thread (the harnesses create theirs from there) */
	if (main_set && !pthread_equal(pthread_self(), main_pth)) {
		int inj = fault_check("thread_create");
		if (inj) {
			hk_thread_create(0, inj);
			return inj;
		}
	}

	tr = malloc(sizeof(*tr));
	tr->fn = fn;
	tr->arg = arg;
	atomic_fetch_add(&running, 1);
	atomic_fetch_add(&epoch, 1);
	ret = __real_pthread_create(th, attr, thread_tramp, tr);
	if (ret) {
		atomic_fetch_add(&epoch, 1);
		atomic_fetch_sub(&running, 1);
		free(tr);
	} else {
		vt_stats.threads_created++;
	}
	hk_thread_create(ret ? 0 : (unsigned long)*th, ret);
	return ret;
}

static struct dbg_join { unsigned long th; int ret, n; int st[8]; unsigned long pth[8]; int has[8]; } dbg_join[16];
static int dbg_join_n;

int __wrap_pthread_join(pthread_t th, void **retval)
{
	int ret;

	if (!virtual_on || vt_nonparticipant)
		return __real_pthread_join(th, retval);
	vt_block_begin();
	ret = __real_pthread_join(th, retval);
	{
		/* inherit the place of the joined thread in the running account, if it still holds one */
		int i, inherited = 0;
		for (i = 0; i < nslots && !inherited; i++) {
			int exp = T_EXITED;
			if (thr[i].has_pth && pthread_equal(thr[i].pth, th) &&
			    atomic_compare_exchange_strong(&thr[i].state, &exp, T_FREE)) {
				thr[i].has_pth = 0;
				inherited = 1;
			}
		}
		if (inherited) {
			atomic_fetch_add(&epoch, 1);
			atomic_store(&thr[vt_self()].state, T_RUNNING);
		} else {
			if (dbg_join_n < 16) {
				struct dbg_join *d = &dbg_join[dbg_join_n++];
				d->th = (unsigned long)th; d->ret = ret; d->n = nslots;
				for (i = 0; i < 8; i++) { d->st[i] = thr[i].state; d->pth[i] = (unsigned long)thr[i].pth; d->has[i] = thr[i].has_pth; }
			}
			vt_block_end();
		}
	}
	hk_thread_join((unsigned long)th);
	return ret;
}

int vt_join(unsigned long th) { return __wrap_pthread_join((pthread_t)th, NULL); }

int __wrap_pthread_detach(pthread_t th)
{
	int i;

	hk_thread_detach((unsigned long)th);
	for (i = 0; i < nslots; i++) {
		if (thr[i].has_pth && pthread_equal(thr[i].pth, th) && thr[i].state != T_FREE) {
			int exp = T_EXITED;
			thr[i].detached = 1;
			if (atomic_compare_exchange_strong(&thr[i].state, &exp, T_FREE)) {
				thr[i].has_pth = 0;
				atomic_fetch_add(&epoch, 1);
				atomic_fetch_sub(&running, 1);
			}
			break;
		}
	}
	return __real_pthread_detach(th);
}

/*
 * Dead-lock observation.  A thread that finds a mutex taken waits for it in 50 ms (real time) slices and looks at the
 * wait-for graph after each: the owner is read from the mutex itself (glibc records the owner's tid for every kind of
 * mutex and pthread_cond_wait clears it).  A verdict needs a structural dead end, not a time-out: every thread that the
 * quiescence account still calls "running" is in fact blocked on a mutex, and every such chain ends in a thread that
 * sleeps in its poll call while it owns the mutex, in the waiter itself (relock), or in a cycle;
 * no child process is outstanding; and the same picture, with the same epoch and the same waits of the holders, was seen
 * in four consecutive slices.  Nothing can run in that state: virtual time only moves at quiescence.
 */
WEAK void hk_deadlock(const char *kind, const char *desc)
{
	char buf[700];
	int n = snprintf(buf, sizeof(buf), "DEADLOCK kind=%s %s\n", kind, desc);
	if (__real_write(1, buf, n) < 0) {}
	_exit(4);
}

static int slot_of_tid(int tid)
{
	int i;
	for (i = 0; i < nslots; i++)
		if (thr[i].state != T_FREE && thr[i].tid == tid)
			return i;
	return -1;
}

static void deadlock_check(struct vthr *me)
{
	int i, nw = 0, ok = 1, steps;
	uint64_t sig = epoch, e1 = epoch;
	const char *kind = NULL;
	int hold = -1;

	if (in_child || !virtual_on || ext_pending != 0)
		goto no;
	for (i = 0; i < nslots; i++)
		if (thr[i].state != T_FREE && thr[i].wait_m != NULL)
			nw++;
	if (running != nw)
		goto no;
	for (i = 0; i < nslots && ok; i++) {
		int cur = i;
		if (thr[i].state == T_FREE || thr[i].wait_m == NULL)
			continue;
		for (steps = 0; steps <= MAXT; steps++) {
			pthread_mutex_t *m = thr[cur].wait_m;
			int otid, o, st;
			if (m == NULL) { ok = 0; break; }
			otid = __atomic_load_n(&m->__data.__owner, __ATOMIC_RELAXED);
			o = otid ? slot_of_tid(otid) : -1;
			if (o < 0) { ok = 0; break; }
			sig = sig * 0x100000001B3ULL ^ ((uint64_t)cur << 40) ^ ((uint64_t)o << 20) ^ (uint64_t)(uintptr_t)m ^ (thr[o].nwaits << 8);
			st = thr[o].state;
			if (o == cur) { if (&thr[i] == me) { kind = "relock"; hold = o; } break; }
			if (thr[o].wait_m != NULL) {
				if (o == i) { if (&thr[i] == me && kind == NULL) { kind = "cycle"; hold = o; } break; }
				cur = o;
				continue;
			}
			if (st == T_BLOCKED_LOOP) { if (&thr[i] == me && kind == NULL) { kind = "holder-sleeps-in-poll"; hold = o; } break; }
			ok = 0;
			break;
		}
		if (steps > MAXT)
			ok = 0;
	}
	if (!ok || kind == NULL || epoch != e1 || running != nw)
		goto no;
	if (me->dl_streak > 0 && me->dl_sig == sig)
		me->dl_streak++;
	else {
		me->dl_sig = sig;
		me->dl_streak = 1;
	}
	if (me->dl_streak >= 4) {
		char desc[600];
		Dl_info di;
		const char *mod = "?";
		unsigned long off = 0;
		memset(&di, 0, sizeof(di));
		if (dladdr(me->wait_ra, &di) && di.dli_fbase != NULL) {
			mod = di.dli_fname ? di.dli_fname : "?";
			off = (unsigned long)((char *)me->wait_ra - (char *)di.dli_fbase);
		}
		snprintf(desc, sizeof(desc), "ra=%s+0x%lx :: thread slot %d (tid %d) is blocked in pthread_mutex_lock(%p); the mutex is owned by thread slot %d (tid %d, state %d, %llu waits); %d thread(s) blocked on mutexes, none running, epoch %llu stable over 4 slices",
			 mod, off - 1, (int)(me - thr), (int)me->tid, (void *)me->wait_m, hold, hold >= 0 ? (int)thr[hold].tid : 0,
			 hold >= 0 ? (int)thr[hold].state : -1, hold >= 0 ? (unsigned long long)thr[hold].nwaits : 0ULL, nw, (unsigned long long)e1);
		hk_deadlock(kind, desc);
		me->dl_streak = 0;
	}
	return;
no:
	me->dl_streak = 0;
}

int __wrap_pthread_mutex_lock(pthread_mutex_t *m)
{
	struct vthr *t;
	int r;

	perturb();
	if (!virtual_on || vt_nonparticipant || in_child)
		return __real_pthread_mutex_lock(m);
	r = pthread_mutex_trylock(m);
	if (r != EBUSY)
		return r;
	t = &thr[vt_self()];
	t->wait_ra = __builtin_return_address(0);
	t->dl_streak = 0;
	atomic_store(&t->wait_m, m);
	for (;;) {
		struct timespec ts;
		__real_clock_gettime(CLOCK_REALTIME, &ts);
		ts.tv_nsec += 50000000;
		if (ts.tv_nsec >= 1000000000) { ts.tv_sec++; ts.tv_nsec -= 1000000000; }
		r = pthread_mutex_timedlock(m, &ts);
		if (r != ETIMEDOUT)
			break;
		deadlock_check(t);
	}
	atomic_store(&t->wait_m, NULL);
	return r;
}

int __wrap_pthread_mutex_unlock(pthread_mutex_t *m)
{
	int r = __real_pthread_mutex_unlock(m);
	perturb();
	return r;
}

/*
 * A thread (or a signal handler on top of it) that takes a spin lock it already holds spins for ever: that needs no
 * timing to decide.  The list is pushed after the lock was taken and popped before it is released, so a handler that
 * arrives in between can only make the monitor miss, never alarm.
 */
#define MAXSPIN 8
static __thread pthread_spinlock_t *volatile spin_held[MAXSPIN];
static __thread volatile int spin_n;

int __wrap_pthread_spin_lock(pthread_spinlock_t *l)
{
	int r, i, n = spin_n;

	for (i = 0; i < n && i < MAXSPIN; i++) {
		if (spin_held[i] == l && virtual_on && !in_child) {
			char desc[400];
			Dl_info di;
			void *ra = __builtin_return_address(0);
			const char *mod = "?";
			unsigned long off = 1;
			memset(&di, 0, sizeof(di));
			if (dladdr(ra, &di) && di.dli_fbase != NULL) {
				mod = di.dli_fname ? di.dli_fname : "?";
				off = (unsigned long)((char *)ra - (char *)di.dli_fbase);
			}
			snprintf(desc, sizeof(desc), "ra=%s+0x%lx :: pthread_spin_lock(%p) by a thread that already holds this spin lock (%d held): it spins for ever",
				 mod, off - 1, (void *)l, n);
			hk_deadlock("spin-relock", desc);
		}
	}
	r = __real_pthread_spin_lock(l);
	if (r == 0 && spin_n < MAXSPIN) {
		/* a handler that nests between these stores uses (and gives back) the same slot: the last store repairs it */
		n = spin_n;
		spin_held[n] = l;
		spin_n = n + 1;
		spin_held[n] = l;
	}
	return r;
}

int __wrap_pthread_spin_unlock(pthread_spinlock_t *l)
{
	int i, n = spin_n;

	for (i = n - 1; i >= 0; i--) {
		if (i < MAXSPIN && spin_held[i] == l) {
			for (; i + 1 < n && i + 1 < MAXSPIN; i++)
				spin_held[i] = spin_held[i + 1];
			spin_n = n - 1;
			break;
		}
	}
	return __real_pthread_spin_unlock(l);
}

/* ---- time ---------------------------------------------------------------- */
int __wrap_clock_gettime(clockid_t id, struct timespec *ts)
{
	if (virtual_on && id == CLOCK_MONOTONIC) {
		int64_t v = V;
		ts->tv_sec = v / VT_NS;
		ts->tv_nsec = v % VT_NS;
		if (stale_errno)
			errno_after(0, errno);
		return 0;
	}
	return __real_clock_gettime(id, ts);
}

static void tfd_fire_real(int fd)
{
	struct itimerspec its;
	struct pollfd p;
	int i, owner;
	uint64_t w0;

	for (owner = 0; owner < nslots; owner++)
		if (thr[owner].tfd == fd)
			break;
	w0 = owner < nslots ? thr[owner].nwaits : 0;
	memset(&its, 0, sizeof(its));
	its.it_value.tv_nsec = 1;
	__real_timerfd_settime(fd, 0, &its, NULL);
	p.fd = fd;
	p.events = POLLIN;
	/* wait until the expiry is visible - or was already consumed by the owning thread, which then left its wait */
	for (i = 0; i < 20000; i++) {
		struct timespec ts = { 0, 50000 };
		p.revents = 0;
		if (__real_ppoll(&p, 1, &ts, NULL) > 0)
			break;
		if (owner < nslots && owner != my_slot && (thr[owner].state != T_BLOCKED_LOOP || thr[owner].nwaits != w0))
			break;
	}
	if (i == 20000 && getenv("VT_DEBUG"))
		fprintf(stderr, "VTDBG tfd_fire_real(%d): never readable (used=%d armed=%d)\n", fd, (int)vtfd[fd].used, (int)vtfd[fd].armed);
	if (fd >= 0 && fd < MAXFD && p.revents)
		vtfd[fd].fired = 1;
	vt_stats.timerfd_fires++;
}

int __wrap_timerfd_create(int clockid, int flags)
{
	int e = fault_check("timerfd_create");
	int fd;

	if (e) {
		errno = e;
		return -1;
	}
	fd = __real_timerfd_create(clockid, flags);
	if (fd >= 0 && fd < MAXFD && virtual_on) {
		vtfd[fd].armed = 0;
		vtfd[fd].fired = 0;
		vtfd[fd].expiry = VT_INF;
		vtfd[fd].used = 1;
		thr[vt_self()].tfd = fd;
	}
	if (fd >= 0)
		hk_fd_created(fd, "timerfd");
	return fd;
}

int __wrap_timerfd_settime(int fd, int flags, const struct itimerspec *nv, struct itimerspec *ov)
{
	struct itimerspec off;

	if (!virtual_on || fd < 0 || fd >= MAXFD || !vtfd[fd].used || !(flags & TFD_TIMER_ABSTIME))
		return __real_timerfd_settime(fd, flags, nv, ov);

	memset(&off, 0, sizeof(off));
	vtfd[fd].fired = 0;
	if (nv->it_value.tv_sec == 0 && nv->it_value.tv_nsec == 0) {
		vtfd[fd].armed = 0;
		vtfd[fd].expiry = VT_INF;
		return __real_timerfd_settime(fd, 0, &off, ov);
	} else {
		int64_t e = (int64_t)nv->it_value.tv_sec * VT_NS + nv->it_value.tv_nsec;
		int r = __real_timerfd_settime(fd, 0, &off, ov);	/* also clears a pending expiry, as the kernel does */
		if (r < 0)
			return r;
		vtfd[fd].expiry = e;
		vtfd[fd].armed = 1;
		if (e <= V) {
			vtfd[fd].armed = 0;
			tfd_fire_real(fd);
		}
		return 0;
	}
}

/* ---- the loop's wait primitives --------------------------------------------- */
struct waitreq {
	int kind;
	int epfd; struct epoll_event *ev; int maxev;
	struct pollfd *pfd; nfds_t npfd;
	int64_t timeout_ns;
};

#define SLICE_US 150

/* slice: 0 = non-blocking probe, 1 = one short real-time slice */
static int real_wait(struct waitreq *rq, int slice, const sigset_t *mask)
{
	struct timespec ts = { 0, slice ? SLICE_US * 1000L : 0 };

	if (rq->kind == VT_EPOLL_PWAIT2 || rq->kind == VT_EPOLL_WAIT) {
		static int no_pwait2;	/* e.g. under valgrind 3.19, which does not know the system call */
		if (!no_pwait2) {
			int r = __real_epoll_pwait2(rq->epfd, rq->ev, rq->maxev, &ts, mask);
			if (r >= 0 || errno != ENOSYS)
				return r;
			no_pwait2 = 1;
		}
		return epoll_pwait(rq->epfd, rq->ev, rq->maxev, slice ? 1 : 0, mask);
	}
	return __real_ppoll(rq->pfd, rq->npfd, &ts, mask);
}

enum { Q_NONE, Q_WOKE_ME };
static _Atomic long dbg_slices, dbg_unconfirmed, dbg_tq, dbg_running, dbg_notconf;
static void dbg_dump(void) { fprintf(stderr, "VTDBG slices=%ld unconfirmed=%ld tq=%ld fail_running=%ld fail_notconf=%ld\n", (long)dbg_slices, (long)dbg_unconfirmed, (long)dbg_tq, (long)dbg_running, (long)dbg_notconf); }

static struct vthr *cur_decider;

void vt_interrupt_wait(void)
{
	if (cur_decider != NULL)
		cur_decider->wake_eintr = 1;
}

static int try_quiesce(struct vthr *me)
{
	uint64_t e1 = epoch;
	int i, n = nslots;
	int64_t best = VT_INF;
	int best_kind = 0, best_idx = -1;	/* 1 stimulus, 2 timerfd, 3 timeout */

	if (getenv("VT_DEBUG")) {
		static int cnt;
		if (++cnt % 20000 == 0) {
			fprintf(stderr, "VTDBG running=%d ext=%d epoch=%llu:", (int)running, (int)ext_pending, (unsigned long long)e1);
			for (i = 0; i < n; i++)
				fprintf(stderr, " [%d st=%d conf=%llu dl=%lld]", i, (int)thr[i].state, (unsigned long long)thr[i].confirmed, (long long)thr[i].deadline);
			fprintf(stderr, "\n");
		}
	}
	if (running != 0) {
		dbg_running++;
		return Q_NONE;
	}
	if (ext_pending != 0)
		hk_ext_poll();
	for (i = 0; i < n; i++) {
		int st = thr[i].state;
		if (st == T_FREE || st == T_BLOCKED_OTHER || st == T_EXITED)
			continue;
		if (st != T_BLOCKED_LOOP)
			return Q_NONE;
		if (thr[i].confirmed != e1) {
			dbg_notconf++;
			return Q_NONE;
		}
	}
	if (epoch != e1 || running != 0)
		return Q_NONE;
	if (ext_pending != 0) {
		/* everything inside the process is at rest, only external actors are owed: the harness may find that one of them is done */
		hk_ext_stuck();
		return Q_NONE;
	}

	vt_stats.quiescences++;
	/* every thread is blocked and nothing is in flight: whatever is still owed now is stuck until an unrelated deadline */
	hk_idle();

	for (i = 0; i < nstim; i++)
		if (best_kind != 1 || stims[i].t < best ||
		    (stims[i].t == best && stims[i].ord < stims[best_idx].ord)) {
			best = stims[i].t;
			best_kind = 1;
			best_idx = i;
		}
	for (i = 0; i < n; i++) {
		int fd;
		if (thr[i].state != T_BLOCKED_LOOP)
			continue;
		fd = thr[i].tfd;
		if (fd >= 0 && vtfd[fd].used && vtfd[fd].armed && vtfd[fd].expiry < best) {
			best = vtfd[fd].expiry;
			best_kind = 2;
			best_idx = fd;
		}
	}
	for (i = 0; i < n; i++) {
		if (thr[i].state != T_BLOCKED_LOOP)
			continue;
		if (thr[i].deadline < best) {
			best = thr[i].deadline;
			best_kind = 3;
			best_idx = i;
		}
	}

	if (best_kind == 0) {
		/* nothing is scheduled: the harness either applies a stimulus or this is a dead end */
		if (hk_quiescent()) {
			atomic_fetch_add(&epoch, 1);
			return Q_NONE;
		}
		hk_dead_end();
		_exit(3);
	}

	if (best > V) {
		V = best;
		vt_stats.time_advances++;
	}

	if (best_kind == 1) {
		struct stim s = stims[best_idx];
		stims[best_idx] = stims[--nstim];
		vt_stats.stimuli++;
		cur_decider = me;
		s.fn(s.arg);
		cur_decider = NULL;
		atomic_fetch_add(&epoch, 1);
		if (me->wake_eintr) {
			int exp = T_BLOCKED_LOOP;
			if (atomic_compare_exchange_strong(&me->state, &exp, T_WAKING)) {
				atomic_fetch_add(&running, 1);
				atomic_fetch_add(&epoch, 1);
			}
			return Q_WOKE_ME;
		}
		return Q_NONE;
	}
	if (best_kind == 2) {
		vtfd[best_idx].armed = 0;
		tfd_fire_real(best_idx);
		atomic_fetch_add(&epoch, 1);
		return Q_NONE;
	}
	/* time-outs: every blocked thread whose deadline has been reached wakes now, concurrently */
	{
		int woke_me = 0;
		for (i = 0; i < n; i++) {
			int exp = T_BLOCKED_LOOP;
			if (thr[i].state != T_BLOCKED_LOOP || thr[i].deadline > V)
				continue;
			if (atomic_compare_exchange_strong(&thr[i].state, &exp, T_WAKING)) {
				atomic_fetch_add(&running, 1);
				atomic_fetch_add(&epoch, 1);
			}
			if (&thr[i] == me)
				woke_me = 1;
		}
		if (woke_me)
			return Q_WOKE_ME;
	}
	return Q_NONE;
}

static int do_wait(struct waitreq *rq, int ms_granular)
{
	struct vthr *t = &thr[vt_self()];
	struct vt_wait w;
	const char *kname = rq->kind == VT_EPOLL_PWAIT2 ? "epoll_pwait2" :
			    rq->kind == VT_EPOLL_WAIT ? "epoll_wait" :
			    rq->kind == VT_PPOLL ? "ppoll" : "poll";
	sigset_t all, orig;
	int n, e, fd;
	int64_t dl;

	memset(&w, 0, sizeof(w));
	w.kind = rq->kind;
	w.thr = my_slot;
	w.seq = ++t->nwaits;
	w.epfd = rq->epfd; w.ev = rq->ev; w.maxev = rq->maxev;
	w.pfd = rq->pfd; w.npfd = (int)rq->npfd;
	w.timeout_ns = rq->timeout_ns;
	w.ms_granular = ms_granular;
	vt_stats.waits++;

	/* a virtual timerfd whose expiry was overtaken by burnt time fires now */
	fd = t->tfd;
	if (fd >= 0 && vtfd[fd].used && vtfd[fd].armed && vtfd[fd].expiry <= V) {
		vtfd[fd].armed = 0;
		tfd_fire_real(fd);
	}

	w.v_enter = V;
	dl = rq->timeout_ns < 0 ? VT_INF : (rq->timeout_ns > VT_INF - V - 1 ? VT_INF - 1 : V + rq->timeout_ns);
	w.deadline = dl;
	if (fd >= 0 && vtfd[fd].used && vtfd[fd].armed && vtfd[fd].expiry < w.deadline)
		w.deadline = vtfd[fd].expiry;
	if (fd >= 0 && vtfd[fd].used && vtfd[fd].fired && w.deadline > V)
		w.deadline = V;		/* an expiry is waiting to be read: the wait returns at once */

	/* faults: the specific primitive first (ENOSYS/EPERM fallbacks), then the generic "wait" (EINTR) */
	e = fault_check(kname);
	if (!e)
		e = fault_check("wait");
	if (e) {
		/* the call is an entry to the kernel wait like any other; it just fails at once */
		w.injected = 1;
		hk_wait_enter(&w);
		w.ret = -1;
		w.err = e;
		hk_wait_return(&w);
		errno = e;
		return -1;
	}

	hk_wait_enter(&w);
	perturb();

	n = real_wait(rq, 0, NULL);
	if (n != 0)
		goto out;
	if (rq->timeout_ns == 0) {
		if (single_mode)
			atomic_fetch_add(&V, 1000);
		goto out;
	}

	/* would block */
	vt_stats.waits_blocked++;
	hk_wait_block(&w);
	sigfillset(&all);
	pthread_sigmask(SIG_SETMASK, &all, &orig);
	t->deadline = dl;
	atomic_store(&t->state, T_BLOCKED_LOOP);
	atomic_fetch_add(&epoch, 1);
	atomic_fetch_sub(&running, 1);
	for (;;) {
		uint64_t s = epoch;
		int slice = single_mode ? 0 : 1;

		n = real_wait(rq, slice, &orig);
		if (n != 0) {
			int exp = T_BLOCKED_LOOP;
			int se = errno;
			if (atomic_compare_exchange_strong(&t->state, &exp, T_RUNNING)) {
				atomic_fetch_add(&running, 1);
				atomic_fetch_add(&epoch, 1);
			} else {
				atomic_store(&t->state, T_RUNNING);	/* was WAKING: already counted */
			}
			errno = se;
			break;
		}
		if (t->state == T_WAKING) {
			atomic_store(&t->state, T_RUNNING);
			break;
		}
		dbg_slices++;
		if (epoch == s)
			t->confirmed = s;
		else
			dbg_unconfirmed++;
		if (pthread_mutex_trylock(&Q) == 0) {
			dbg_tq++;
			int r = try_quiesce(t);
			__real_pthread_mutex_unlock(&Q);
			if (r == Q_WOKE_ME) {
				atomic_store(&t->state, T_RUNNING);
				n = 0;
				if (t->wake_eintr) {
					t->wake_eintr = 0;
					n = -1;
					errno = EINTR;
				}
				break;
			}
		}
	}
	e = errno;
	t->deadline = VT_INF;
	pthread_sigmask(SIG_SETMASK, &orig, NULL);
	errno = e;
out:
	w.ret = n;
	w.err = n < 0 ? errno : 0;
	e = errno;
	hk_wait_return(&w);
	perturb();
	errno_after(n, e);
	return n;
}

static int64_t ts_to_ns(const struct timespec *ts)
{
	if (ts == NULL)
		return -1;
	if (ts->tv_sec >= 9000000000LL)		/* more than 285 years: beyond what 64-bit nanoseconds hold */
		return 9000000000LL * VT_NS;
	return (int64_t)ts->tv_sec * VT_NS + ts->tv_nsec;
}

int __wrap_epoll_pwait2(int epfd, struct epoll_event *ev, int maxev, const struct timespec *to, const sigset_t *mask)
{
	struct waitreq rq = { VT_EPOLL_PWAIT2, epfd, ev, maxev, NULL, 0, ts_to_ns(to) };
	if (!virtual_on || in_child)
		return __real_epoll_pwait2(epfd, ev, maxev, to, mask);
	return do_wait(&rq, 0);
}

int __wrap_epoll_wait(int epfd, struct epoll_event *ev, int maxev, int ms)
{
	struct waitreq rq = { VT_EPOLL_WAIT, epfd, ev, maxev, NULL, 0, ms < 0 ? -1 : (int64_t)ms * 1000000 };
	if (!virtual_on || in_child)
		return __real_epoll_wait(epfd, ev, maxev, ms);
	return do_wait(&rq, 1);
}

int __wrap_ppoll(struct pollfd *fds, nfds_t nfds, const struct timespec *to, const sigset_t *mask)
{
	struct waitreq rq = { VT_PPOLL, -1, NULL, 0, fds, nfds, ts_to_ns(to) };
	if (!virtual_on || in_child)
		return __real_ppoll(fds, nfds, to, mask);
	return do_wait(&rq, 0);
}

int __wrap_poll(struct pollfd *fds, nfds_t nfds, int ms)
{
	struct waitreq rq = { VT_POLL, -1, NULL, 0, fds, nfds, ms < 0 ? -1 : (int64_t)ms * 1000000 };
	if (!virtual_on || in_child || vt_in_register_try)
		return __real_poll(fds, nfds, ms);
	return do_wait(&rq, 1);
}

/* ---- descriptor creation / misc system calls ---------------------------------- */
static void mark_libfd(int fd, const char *what)
{
	if (fd >= 0 && fd < MAXFD)
		libfd[fd] = 1;
	if (fd >= 0)
		hk_fd_created(fd, what);
}

long __wrap_syscall(long nr, long a, long b, long c, long d, long e, long f)
{
	int inj;
	long r;

	switch (nr) {
	case SYS_epoll_create1:
		if ((inj = fault_check("epoll_create1"))) { errno = inj; return -1; }
		r = __real_syscall(nr, a, b, c, d, e, f);
		if (r >= 0) hk_fd_created((int)r, "epoll");
		return r;
	case SYS_eventfd2:
		if ((inj = fault_check("eventfd2"))) { errno = inj; return -1; }
		r = __real_syscall(nr, a, b, c, d, e, f);
		mark_libfd((int)r, "eventfd2");
		return r;
#ifdef SYS_eventfd
	case SYS_eventfd:
		if ((inj = fault_check("eventfd"))) { errno = inj; return -1; }
		r = __real_syscall(nr, a, b, c, d, e, f);
		mark_libfd((int)r, "eventfd");
		return r;
#endif
	case SYS_pipe2:
		if ((inj = fault_check("pipe2"))) { errno = inj; return -1; }
		r = __real_syscall(nr, a, b, c, d, e, f);
		if (r == 0) {
			mark_libfd(((int *)a)[0], "pipe2");
			mark_libfd(((int *)a)[1], "pipe2");
		}
		return r;
	default:
		return __real_syscall(nr, a, b, c, d, e, f);
	}
}

int __wrap_epoll_create(int size)
{
	int inj = fault_check("epoll_create");
	int r;
	if (inj) { errno = inj; return -1; }
	r = __real_epoll_create(size);
	if (r >= 0) hk_fd_created(r, "epoll");
	return r;
}

int __wrap_pipe(int fd[2])
{
	int inj = fault_check("pipe");
	int r;
	if (inj) { errno = inj; return -1; }
	r = __real_pipe(fd);
	if (r == 0) {
		mark_libfd(fd[0], "pipe");
		mark_libfd(fd[1], "pipe");
	}
	return r;
}

int __wrap_inotify_init(void)
{
	int r = __real_inotify_init();
	if (r >= 0) {
		hk_fd_created(r, "inotify");
		hk_inotify_init(r);
	}
	return r;
}

int __wrap_epoll_ctl(int epfd, int op, int fd, struct epoll_event *ev)
{
	int r, e;

	if (op == EPOLL_CTL_ADD && ev != NULL && (ev->events & ~(uint32_t)EPOLLONESHOT) == 0 && fd >= 0 && fd < MAXFD && libfd[fd]) {
		int inj = fault_check("kick_add");
		if (inj) { errno = inj; return -1; }
	}
	perturb();
	r = __real_epoll_ctl(epfd, op, fd, ev);
	e = errno;
	hk_epoll_ctl(epfd, op, fd, ev, r, e);
	perturb();
	errno_after(r, e);
	return r;
}

int __wrap_close(int fd)
{
	if (fd >= 0 && fd < MAXFD) {
		if (vtfd[fd].used) {
			int i;
			vtfd[fd].used = 0;
			vtfd[fd].armed = 0;
			for (i = 0; i < nslots; i++)
				if (thr[i].tfd == fd)
					thr[i].tfd = -1;
		}
		libfd[fd] = 0;
	}
	hk_close(fd);
	return __real_close(fd);
}

/*
 * A thread that reads end-of-file from the same descriptor 200000 times in a row, without any other result in between, is
 * caught in a loop that no event will ever leave (each call returns at once): reported like a dead-lock, with the call site.
 */
static void eof_spin(int fd, long r, size_t n, void *ra, const char *what)
{
	static __thread int last_fd = -1;
	static __thread long count;

	if (in_child)
		return;
	if (r == 0 && n > 0 && fd == last_fd) {
		if (++count == 200000) {
			char desc[400];
			Dl_info di;
			const char *mod = "?";
			unsigned long off = 1;
			memset(&di, 0, sizeof(di));
			if (dladdr(ra, &di) && di.dli_fbase != NULL) {
				mod = di.dli_fname ? di.dli_fname : "?";
				off = (unsigned long)((char *)ra - (char *)di.dli_fbase);
			}
			snprintf(desc, sizeof(desc), "ra=%s+0x%lx :: %s() on descriptor %d returned 0 (end of file) 200000 times in a row in the same thread with nothing else in between: the caller loops for ever",
				 mod, off - 1, what, fd);
			hk_deadlock("eof-spin", desc);
		}
	} else {
		last_fd = (r == 0 && n > 0) ? fd : -1;
		count = 0;
	}
}

long __wrap_read(int fd, void *buf, size_t n)
{
	long r;
	int e;

	if (!in_child)
		hk_read_pre(fd);
	r = __real_read(fd, buf, n);
	e = errno;
	eof_spin(fd, r, n, __builtin_return_address(0), "read");
	if (fd >= 0 && fd < MAXFD && vtfd[fd].used && r > 0)
		vtfd[fd].fired = 0;
	if (!in_child)
		hk_read(fd, buf, n, r, e);
	errno_after(r, e);
	return r;
}

long __wrap_write(int fd, const void *buf, size_t n)
{
	long r;
	int e, fl;

	perturb();
	fl = fcntl(fd, F_GETFL);
	if (!in_child)
		hk_write_pre(fd);
	r = __real_write(fd, buf, n);
	e = errno;
	if (!in_child)
		hk_write(fd, buf, n, r, e, fl >= 0 && (fl & O_NONBLOCK));
	errno_after(r, e);
	return r;
}

long __wrap_splice(int fdin, off_t *offin, int fdout, off_t *offout, size_t len, unsigned int flags)
{
	int inj = fault_check("splice");
	long r;
	int e;
	if (inj) { errno = inj; return -1; }
	r = __real_splice(fdin, offin, fdout, offout, len, flags);
	e = errno;
	eof_spin(fdin, r, len, __builtin_return_address(0), "splice");
	hk_splice(fdin, fdout, len, r, e);
	errno_after(r, e);
	return r;
}

/* ---- processes and signals ------------------------------------------------------ */
pid_t __wrap_fork(void)
{
	pid_t p;
	int inj = in_child ? 0 : fault_check("fork");
	if (inj) {
		errno = inj;
		return -1;
	}
	p = __real_fork();
	if (p == 0)
		in_child = 1;
	else
		hk_fork(p);
	return p;
}

/* for a child that was not created through fork(3) (raw system call, clone): it is not part of the monitored process */
void vt_mark_child(void) { in_child = 1; }

pid_t __wrap_wait4(pid_t pid, int *status, int options, struct rusage *ru)
{
	int st = 0;
	pid_t r = __real_wait4(pid, &st, options, ru);
	int e = errno;
	if (status != NULL)
		*status = st;
	if (!in_child)
		hk_wait4(pid, options, r, st);
	errno = e;
	return r;
}

int __wrap_kill(pid_t pid, int sig)
{
	int r;
	if (!in_child)
		hk_kill_pre(pid, sig);
	r = __real_kill(pid, sig);
	int e = errno;
	if (!in_child)
		hk_kill(pid, sig, r, e);
	errno = e;
	return r;
}

static void (*sig_real[65])(int);

static void sig_tramp(int signum)
{
	int e = errno;

	if (in_child) {
		/* a forked child is not part of the monitored process: just behave like the library's handler */
		if (signum >= 0 && signum < 65 && sig_real[signum] != NULL)
			sig_real[signum](signum);
		errno = e;
		return;
	}
	atomic_fetch_add(&running, 1);
	atomic_fetch_add(&epoch, 1);
	vt_stats.sig_deliveries++;
	hk_sig_enter(signum);
	if (signum >= 0 && signum < 65 && sig_real[signum] != NULL)
		sig_real[signum](signum);
	hk_sig_exit(signum);
	atomic_fetch_add(&epoch, 1);
	atomic_fetch_sub(&running, 1);
	errno = e;
}

int __wrap_sigaction(int signum, const struct sigaction *act, struct sigaction *old)
{
	struct sigaction sa;

	if (!in_child)
		hk_sigaction(signum, act);
	if (in_child || !virtual_on || act == NULL || signum < 0 || signum >= 65 ||
	    (act->sa_flags & SA_SIGINFO) || act->sa_handler == SIG_DFL || act->sa_handler == SIG_IGN)
		return __real_sigaction(signum, act, old);
	sa = *act;
	sig_real[signum] = act->sa_handler;
	sa.sa_handler = sig_tramp;
	return __real_sigaction(signum, &sa, old);
}

/* called from the harness watchdog: what the quiescence account looked like when the case was given up */
void vt_debug_dump(void)
{
	char buf[256];
	int i, n;
	n = snprintf(buf, sizeof(buf), "NOTE wd: shim running=%d ext_pending=%d epoch=%llu nslots=%d nstim=%d V=%lld\n",
		     (int)running, (int)ext_pending, (unsigned long long)epoch, (int)nslots, nstim, (long long)V);
	if (__real_write(1, buf, n) < 0) {}
	for (i = 0; i < nslots && i < 24; i++) {
		if (thr[i].state == T_FREE)
			continue;
		n = snprintf(buf, sizeof(buf), "NOTE wd: shim slot %d tid=%d state=%d confirmed=%llu nwaits=%llu deadline=%lld wait_m=%p has_pth=%d\n",
			     i, (int)thr[i].tid, (int)thr[i].state, (unsigned long long)thr[i].confirmed, (unsigned long long)thr[i].nwaits,
			     (long long)thr[i].deadline, (void *)thr[i].wait_m, (int)thr[i].has_pth);
		if (__real_write(1, buf, n) < 0) {}
	}
}

/* ---- init -------------------------------------------------------------------------- */
void vt_init(void)
{
	const char *s;

	my_slot = slot_alloc();
	main_pth = pthread_self();
	main_set = 1;
	if (pthread_key_create(&exit_key, exit_dtor) == 0)
		exit_key_ok = 1;
	if ((s = getenv("VT_FAULTS")) != NULL && vt_fault_plan(s) < 0) {
		fprintf(stderr, "VT: bad fault plan %s\n", s);
		_exit(2);
	}
	if ((s = getenv("VT_STALE_ERRNO")) != NULL && atoi(s) > 0)
		stale_errno = atoi(s) >= 2 ? 2 : 1;
	if (getenv("VT_DEBUG"))
		atexit(dbg_dump);
	if ((s = getenv("VT_PERTURB")) != NULL) {
		perturb_level = atoi(s);
		perturb_env = 1;	/* the environment overrides what the harness asks for */
	}
}
