#!/usr/bin/env python3
# build helper: tools/b.py <harness> <variant>
import importlib.util, importlib.machinery, sys
loader = importlib.machinery.SourceFileLoader('check', '/verif/check')
spec = importlib.util.spec_from_loader('check', loader)
m = importlib.util.module_from_spec(spec); loader.exec_module(m)
try:
    if sys.argv[1] == 'race':
        print(m.build_harness('race', sys.argv[2], use_shim=False, extra_flags=['-Wl,--wrap=epoll_pwait2']))
    else:
        print(m.build_harness(sys.argv[1], sys.argv[2], *( [False] if len(sys.argv)>3 and sys.argv[3]=='noshim' else [])))
except m.BuildError as e:
    print(e); sys.exit(1)
