#!/bin/sh
# usage: mkwt.sh <dir>   -- scratch git worktree of /repo HEAD, pre-seeded with the
# (git-ignored) autotools output so that "make -j16 && make check" works offline.
set -e
d="$1"
git -C /repo worktree add -f "$d" HEAD >/dev/null 2>&1
rsync -a --ignore-existing --exclude '.git' --exclude '*.o' --exclude '*.lo' \
  --exclude '*.la' --exclude '.libs' --exclude '*.log' --exclude '*.trs' /repo/ "$d"/
# drop prebuilt executables so everything is rebuilt from the worktree sources
( cd "$d" && make -j16 >/dev/null 2>&1 ) || { echo "build failed in $d" >&2; exit 1; }
echo "$d"
