#!/bin/sh
# usage: confirm_mutant.sh <prop> <x>
# Confirms a seeded change delivered in /tmp/wt/<prop>/_mutants/<x>/: applies it in that scratch worktree,
# rebuilds, runs the existing suite (must be 11 PASS) and the demonstration (must fail); reverts, rebuilds,
# runs the demonstration again (must pass).  On success copies it to /verif/seeded/<prop>-<x>/ with meta.json.
prop="$1"; x="$2"
wt=${WT_BASE:-/tmp/wt}/$prop; m=$wt/_mutants/$x
cd "$wt" || exit 2
git checkout -q -- src 2>/dev/null
git apply "$m/patch.diff" || { echo "$prop/$x: patch does not apply"; exit 1; }
make -j16 >/tmp/confirm_build.log 2>&1 || { echo "$prop/$x: build failed"; git checkout -q -- src; exit 1; }
warn=$(grep -c 'warning:' /tmp/confirm_build.log)
pass=$(make check 2>&1 | grep -E '^# PASS:' | awk '{print $3}')
if [ -x "$m/build_and_run.sh" ]; then demo="$m/build_and_run.sh $wt"; else demo="sh $m/demo.sh $wt"; fi
( cd "$m" && timeout 300 $demo ) > /tmp/confirm_demo_with.log 2>&1; rc_with=$?
git checkout -q -- src
make -j16 >/dev/null 2>&1
( cd "$m" && timeout 300 $demo ) > /tmp/confirm_demo_without.log 2>&1; rc_without=$?
echo "$prop/$x: warnings=$warn suite_pass=$pass demo_with_change=$rc_with demo_without=$rc_without"
if [ "$pass" = "11" ] && [ "$rc_with" != "0" ] && [ "$rc_without" = "0" ]; then
  d=/verif/seeded/$prop-$x; mkdir -p "$d"
  cp "$m/patch.diff" "$d/"; cp "$m/README.md" "$d/" 2>/dev/null
  for f in "$m"/demo* "$m"/build_and_run.sh "$m"/*.c "$m"/*.sh; do [ -f "$f" ] && cp "$f" "$d/" 2>/dev/null; done
  find "$d" -type f -size +200k -delete
  echo "CONFIRMED $prop/$x"
  exit 0
fi
echo "NOT-CONFIRMED $prop/$x"; tail -5 /tmp/confirm_demo_with.log; exit 1
