#!/bin/sh
# usage: try_mutant.sh <patch.diff> <property id> [tier]
# Applies the patch to a scratch copy of /repo (never to /repo itself), runs the check against it with
# separate build/evidence/replay directories, prints the verdict, removes the copy.
set -e
patch="$1"; prop="$2"; tier="${3:-quick}"
d=$(mktemp -d /tmp/mut.XXXXXX)
mkdir -p "$d/repo"
rsync -a --exclude '.git' --exclude '*.o' --exclude '*.lo' --exclude '.libs' --exclude 'test*' --exclude contrib --exclude man3 /repo/ "$d/repo/"
( cd "$d/repo" && patch -p1 -s < "$patch" ) || { echo "PATCH-FAILED"; rm -rf "$d"; exit 3; }
set +e
IVY_REPO="$d/repo" VERIF_BUILD="$d/build" VERIF_EVIDENCE_DIR="$d/ev" VERIF_REPLAY_DIR="$d/replay" /verif/check "$prop" --tier "$tier" > "$d/out.txt" 2>&1
rc=$?
grep -E "^(VIOLATION|KNOWN-FINDING|INCONCLUSIVE|  key=|C[0-9]+ )" "$d/out.txt" | cut -c1-300 | (head -${MUT_LINES:-8}; grep -E "^C[0-9]+ " | tail -1)
echo "exit=$rc"
rm -rf "$d"
exit 0
