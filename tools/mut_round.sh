#!/bin/sh
# usage: mut_round.sh <outfile> <prop/x> ...   (mutants under /tmp/wt/<prop>/_mutants/<x>/patch.diff)
out="$1"; shift
: > "$out"
for m in "$@"; do
  p=${m%/*}; x=${m#*/}
  echo "== $m" >> "$out"
  timeout 1500 /verif/tools/try_mutant.sh ${WT_BASE:-/tmp/wt}/$p/_mutants/$x/patch.diff ${MUT_PROP:-$p} ${MUT_TIER:-quick} >> "$out" 2>&1
done
echo "ROUND-DONE" >> "$out"
