#!/usr/bin/env python3
"""Print the prompt handed to a fresh sub-agent that is asked to seed a property-breaking change.
usage: agent_prompt.py <property id> <worktree> [label1 label2]"""
import json, sys
pid, wt = sys.argv[1], sys.argv[2]
A, B = (sys.argv[3], sys.argv[4]) if len(sys.argv) > 4 else ('a', 'b')
p = next(json.loads(l) for l in open('/verif/properties.jsonl') if json.loads(l)['id'] == pid)
print(f"""You are helping to evaluate a verification effort for the C event-loop library ivykis (buytenh/ivykis).
You have your own scratch git worktree of the library at {wt} (already configured and built in-tree with autotools:
`make -j16` rebuilds, `make check` runs the existing 11-test suite, which currently passes). Work ONLY inside {wt}.
Do not read, list or touch /verif or /repo, and do not look at any other directory under {__import__('os').path.dirname(wt)}.

Here is a semantic property that the library is supposed to guarantee:

  Title: {p['title']}
  Statement: {p['statement']}
  Quantified over: {p['quantifier']['text']}

Your job: produce TWO independent, realistic source changes (call them "{A}" and "{B}") to the library sources under
{wt}/src that each BREAK this property, while the library still compiles without new warnings and `make check` still
passes (all 11 tests). Each change should look like a plausible maintainer mistake or a plausible "optimisation /
refactoring gone wrong" (a dropped re-check, a wrong comparison, a lock taken too late, a stale flag, a missing
re-arm, an off-by-one at a boundary ...), NOT sabotage such as `if (rand()...)`, `abort()`, or deleting a feature wholesale.
Most important: each change must need something SPECIFIC to manifest - a particular interleaving of threads, a fault or
error return at a particular point, a multi-step sequence of operations, an unusual input or population size, a
particular readiness pattern, or two cooperating sites that each look fine alone. A change that ordinary use would expose
at once (every program using the feature fails immediately) is not wanted. The two changes should use different
mechanisms / different code sites.

For each change X in ({A}, {B}) deliver, in the directory {wt}/_mutants/X/ :
  - patch.diff : `git diff` of the library change only (relative to the worktree HEAD; must apply with `git apply` at the repo root)
  - demo.c (or demo.sh + sources): a small self-contained demonstration program using the public API (or, if really needed,
    including private headers from src/) that FAILS (non-zero exit, crash, hang detected by its own alarm(), or sanitizer report)
    when the change is applied and PASSES on the unchanged library. Say exactly how to compile and run it (a `build_and_run.sh`
    that takes the worktree path as $1 and exits 0 on pass, non-zero on fail is ideal; link against {wt}/src/.libs/libivykis.a or
    compile the src/*.c files directly with -I{wt} -I{wt}/src/include -I{wt}/src -D_GNU_SOURCE -DHAVE_CONFIG_H -pthread).
    If the failure is schedule dependent, make the demo loop / use sleeps so that it fails reliably (say how reliably).
  - README.md : what the change does, why it breaks the property, what specifically it needs in order to manifest,
    and the output you observed from `make check` and from the demo with and without the change.

Procedure you must follow for each change: apply it, `make -j16`, `make check` (must be 11 PASS), run demo (must fail);
then `git checkout -- src` (revert), `make -j16`, run demo (must pass). Leave the worktree REVERTED (clean `git status` for
tracked files) and built when you finish; the patches live only in _mutants/. There is no network. gcc, clang, valgrind, gdb
are available. Keep your final answer short: for each change one paragraph (site, mechanism, what it needs to manifest,
demo reliability).""")
