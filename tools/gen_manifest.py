#!/usr/bin/env python3
"""Regenerates /verif/MANIFEST.json from the table below (run after adding a check)."""
import json, os

HERE = os.path.dirname(os.path.dirname(os.path.abspath(__file__)))

CORE_NOTE = ('Trusted: the link-time syscall shim (lib/vt.c: virtual clock, emulated timerfd, ground-truth poll(2) snapshots), '
             'the shadow model in harness/core.c, gcc ASan/UBSan. Time is virtual: what the library asks of the kernel is checked, not kernel timer accuracy. '
             'Only executed paths are judged (pipes and UNIX stream sockets, one loop thread, 4 Linux poll methods).')

CHECKS = {
    'C01': dict(cat='exploration', tech='ASan on individually malloc()ed, immediately freed objects + generation-checked handler cookies (runtime monitor)',
                text='Random callback programs (thousands per run, each on all four poll methods) unregister and free objects of every kind at once, preferably objects already collected for dispatch; AddressSanitizer reports any later library access, the cookie monitor any later handler call. Held-on-observed, not a proof.',
                ref='3 C01', note=CORE_NOTE),
    'C02': dict(cat='exploration', tech='online monitor: poll(2) ground truth of every descriptor at each kernel wait vs. what the loop does next',
                text='At every entry to the kernel wait the monitor polls all harness descriptors itself; a wanted, ready band must not be slept on, every band the kernel reported must be dispatched or excused in that iteration, and no wanted ready band may starve (1 iteration on poll/ppoll, 3 on epoll).',
                ref='3 C02', note=CORE_NOTE),
    'C03': dict(cat='exploration', tech='online monitor: ground-truth snapshot after each kernel wait vs. every fd handler entry (cookie, pointer, band, once per iteration)',
                text='Every descriptor handler entry is checked against the shadow registration, the currently installed handler variant, the poll(2) snapshot taken right after the kernel wait returned, and a once-per-iteration counter.',
                ref='3 C03', note=CORE_NOTE),
    'C04': dict(cat='exploration', tech='virtual clock + emulated timerfd; wake-deadline oracle at each wait, exactly-once/not-early oracle at each timer handler',
                text='Under a virtual clock the wake deadline of every kernel wait (time-out or armed timer descriptor) is compared with the earliest registered expiry; each timer handler entry is checked for exactly-once, not-early and unregistered-on-entry. The repeated-deadline timerfd path is driven by trains of descriptor wake-ups.',
                ref='3 C04', note=CORE_NOTE),
    'C05': dict(cat='exploration', tech='reference priority order in the harness vs. firing order; promptness and fatal-message monitors; population ramps across 128/16384',
                text='Firing order is compared with the harness\'s own record of registered expiries (no earlier timer registered before the round may still wait); due timers must fire within two iterations; iv_fatal heap-index messages are violations. Random programs plus population histories crossing the 128 and 16384 boundaries both ways.',
                ref='3 C05', note=CORE_NOTE),
    'C06': dict(cat='exploration', tech='online monitor: per-task exactly-once, never twice between two polls, zero wake deadline while tasks are pending',
                text='Each task handler entry is checked (registered, unregistered on entry, not twice between two kernel polls); each wait entry with a task pending must have a wake deadline that is not in the future.',
                ref='3 C06', note=CORE_NOTE),
    'C07': dict(cat='exploration', tech='online monitor: shadow registry vs. iv_main return / wait entry, nesting, spin bounds, injected registration failures, dead-end detection at quiescence',
                text='iv_main must return exactly when quit was requested or the shadow registry is empty; no wait after quit; callbacks only inside iv_main at depth 1; at most 16 fruitless wake-ups in a row; failed iv_fd_register_try leaves nothing behind; a loop that sleeps for ever after tear-down is reported as a dead end at detected quiescence.',
                ref='3 C07', note=CORE_NOTE),
}

NOT_YET = {
}


def main():
    props = [json.loads(l) for l in open(os.path.join(HERE, 'properties.jsonl'))]
    checks = []
    na = []
    for p in props:
        pid = p['id']
        c = CHECKS.get(pid)
        if c is None:
            na.append({'property_id': pid, 'reason': NOT_YET.get(pid, 'check not built yet in this round (runtime-monitoring design exists in DESIGN.md section 3; no verdict is claimed until the harness is committed)')})
            continue
        checks.append({
            'property_id': pid,
            'quick_cmd': './check %s --tier quick' % pid,
            'thorough_cmd': './check %s --tier thorough' % pid,
            'evidence_file': 'evidence/%s.json' % pid,
            'replay_cmd_template': './check %s --replay {path}' % pid,
            'engine': 'runtime-monitors',
            'level_claimed': {'category': c['cat'], 'text': c['text'], 'design_ref': 'DESIGN.md ' + c['ref']},
            'level_note': c['note'],
            'technique': c['tech'],
        })
    man = {
        'version': 1,
        'setup_cmd': './setup.sh',
        'hooks': {
            'guard': 'IVYKIS_VERIF',
            'enable': 'every verification build compiles /repo/src/*.c with -DIVYKIS_VERIF (see check: cflags()); no source hook is needed so far: observation is at the API and at the link-time wrapped system-call boundary',
            'baseline_off_cmd': 'cd /repo && make -j16 >/dev/null 2>&1 && make check',
            'source_commits': [],
            'add_only': True,
        },
        'engines': [{'name': 'runtime-monitors', 'path': 'check', 'serves_properties': [c['property_id'] for c in checks],
                     'kind_free_text': 'python driver + C harnesses linked with the library objects and a --wrap system-call shim; gcc ASan/UBSan/TSan builds'}],
        'checks': checks,
        'not_applicable': na,
        'notes': 'All verdicts are "held on the executions observed"; exit 2 = inconclusive (never folded into 0 or 1). Known findings: known_findings.txt.',
    }
    json.dump(man, open(os.path.join(HERE, 'MANIFEST.json'), 'w'), indent=1)
    print('MANIFEST.json: %d checks, %d not_applicable' % (len(checks), len(na)))


if __name__ == '__main__':
    main()
