#!/usr/bin/env python3
"""Regenerates /verif/MANIFEST.json from the table below (run after adding a check)."""
import json, os

HERE = os.path.dirname(os.path.dirname(os.path.abspath(__file__)))

CORE_NOTE = ('Trusted: the link-time syscall shim (lib/vt.c: virtual clock, emulated timerfd, ground-truth poll(2) snapshots), '
             'the shadow model in harness/core.c, gcc ASan/UBSan. Time is virtual: what the library asks of the kernel is checked, not kernel timer accuracy. '
             'Only executed paths are judged (pipes and UNIX stream sockets, one loop thread, 4 Linux poll methods).')

CHECKS = {
    'C01': dict(cat='exploration', tech='ASan on individually malloc()ed, immediately freed objects + generation-checked handler cookies (runtime monitor)',
                text='Random callback programs (thousands per run, each on all four poll methods) unregister and free objects of every kind at once, preferably objects already collected for dispatch; AddressSanitizer reports any later library access, the cookie monitor any later handler call. Held-on-observed, not a proof.',
                ref='3 C01', note=CORE_NOTE),
    'C02': dict(cat='exploration', tech='online monitor: poll(2) ground truth of every descriptor at each kernel wait vs. what the loop does next',
                text='At every entry to the kernel wait the monitor polls all harness descriptors itself; a wanted, ready band must not be slept on, every band the kernel reported must be dispatched or excused in that iteration, and no wanted ready band may starve (1 iteration on poll/ppoll, 3 on epoll).',
                ref='3 C02', note=CORE_NOTE),
    'C03': dict(cat='exploration', tech='online monitor: ground-truth snapshot after each kernel wait vs. every fd handler entry (cookie, pointer, band, once per iteration)',
                text='Every descriptor handler entry is checked against the shadow registration, the currently installed handler variant, the poll(2) snapshot taken right after the kernel wait returned, and a once-per-iteration counter.',
                ref='3 C03', note=CORE_NOTE),
    'C04': dict(cat='exploration', tech='virtual clock + emulated timerfd; wake-deadline oracle at each wait, exactly-once/not-early oracle at each timer handler',
                text='Under a virtual clock the wake deadline of every kernel wait (time-out or armed timer descriptor) is compared with the earliest registered expiry; each timer handler entry is checked for exactly-once, not-early and unregistered-on-entry. The repeated-deadline timerfd path is driven by trains of descriptor wake-ups.',
                ref='3 C04', note=CORE_NOTE),
    'C05': dict(cat='exploration', tech='reference priority order in the harness vs. firing order; promptness and fatal-message monitors; population ramps across 128/16384',
                text='Firing order is compared with the harness\'s own record of registered expiries (no earlier timer registered before the round may still wait); due timers must fire within two iterations; iv_fatal heap-index messages are violations. Random programs plus population histories crossing the 128 and 16384 boundaries both ways.',
                ref='3 C05', note=CORE_NOTE),
    'C06': dict(cat='exploration', tech='online monitor: per-task exactly-once, never twice between two polls, zero wake deadline while tasks are pending',
                text='Each task handler entry is checked (registered, unregistered on entry, not twice between two kernel polls); each wait entry with a task pending must have a wake deadline that is not in the future.',
                ref='3 C06', note=CORE_NOTE),
    'C07': dict(cat='exploration', tech='online monitor: shadow registry vs. iv_main return / wait entry, nesting, spin bounds, injected registration failures, dead-end detection at quiescence',
                text='iv_main must return exactly when quit was requested or the shadow registry is empty; no wait after quit; callbacks only inside iv_main at depth 1; at most 16 fruitless wake-ups in a row; failed iv_fd_register_try leaves nothing behind; a loop that sleeps for ever after tear-down is reported as a dead end at detected quiescence.',
                ref='3 C07', note=CORE_NOTE),
}

MT_NOTE = ('Trusted: the syscall shim\'s quiescence detection (every thread blocked in a kernel wait that a zero-time-out re-poll confirmed empty after the last '
           'running thread stopped; joiners inherit the place of the thread they join; signal handlers count as running), gcc ASan/UBSan, the schedule '
           'perturbation (random yields/sleeps at every wrapped lock, kick and wait). Finite set of schedules; evidence counts distinct interleaving signatures.')

CHECKS.update({
    'C08': dict(cat='exploration', tech='obligation monitor (post call -> later handler entry in the owner) evaluated at detected quiescence; count and thread checks at every handler entry; schedule perturbation',
                text='Posters x owner loops x several events run free under perturbation on 5 transport variants; at detected quiescence every event with a post later than its last handler entry is a lost post (reported with the thread state instead of hanging); handler entries never exceed posts begun and always run in the owner.',
                ref='3 C08', note=MT_NOTE),
    'C09': dict(cat='exploration', tech='obligation monitor at detected quiescence; O_NONBLOCK check of every post write(2); eventfd2 / old eventfd / pipe back-ends by fault plan',
                text='Posts from threads, from a signal handler, from handlers and from a forked child, plus bursts of 70000 posts, on 7 (poll method x back-end) variants; a post without a later handler run at quiescence is a violation; every write(2) of a post must hit a non-blocking descriptor.',
                ref='3 C09', note=MT_NOTE),
    'C12': dict(cat='exploration', tech='per-item exactly-once / thread-identity / concurrency monitor + all-items-complete obligation at detected quiescence; virtual 10 s idle time-out',
                text='Bursts, continuations, submissions from completions and NULL-pool items under virtual time (idle time-outs expire between bursts, several delays exactly at 10 s); every work/completion call is checked (once, right thread, after work, <= max_threads at once) and at quiescence no submitted item may be incomplete.',
                ref='3 C12', note=MT_NOTE),
    'C13': dict(cat='exploration', tech='start/stop hook pairing, pthread_create/join accounting per creator, owner iv_main return check, pool struct freed under ASan right after iv_work_pool_put',
                text='iv_work_pool_put at random points (idle, busy, starting workers; from a completion; no worker ever started) with the pool struct freed at once; items submitted before the put must complete, hooks must pair, every created thread must be joined before its creator\'s iv_main returns; iv_thread children of four exit styles.',
                ref='3 C13', note=MT_NOTE),
    'C15': dict(cat='fault_enumeration', tech='fault plans at the wrapped system-call boundary (EINTR at every k-th wait, ENOSYS/EPERM of each optional call from the 1st / k-th call) x 4 poll methods; schedule-independent summary comparison + all C01-C09 monitors armed',
                text='Self-contained scenario programs are run fault-free on the default method and again under every method, odd exclusion list and fault plan; their schedule-independent summaries must be equal. Random callback programs and the cross-thread scenarios run under the same plans with the monitors of C01-C09 armed; a violation seen only under a plan is a C15 violation. Each injection must be seen firing to count.',
                ref='3 C15', note='Trusted: the fault injector in lib/vt.c (faults at the libc call boundary, not inside the kernel), the summary definition in harness/sum.c, plus the trusted bases of C01-C09.'),
    'C16': dict(cat='exploration', tech='full structural walk + reference sorted set after every operation; exhaustive enumeration of all AVL shapes of height <= 5 x all single operations',
                text='Exhaustive for every AVL shape up to height 5 and every insert gap, duplicate insert and node deletion (coverage.exhaustive=true for that part); random shapes of height 6-7 and long random histories in addition. Each operation is followed by a complete check of links, heights, balance, order, both traversals and min/max.',
                ref='3 C16', note='Trusted: the validator and the shape builder in harness/avl.c (the builder is itself validated on every shape), gcc ASan/UBSan. The comparator is a strict total order on distinct integer keys.'),
})

CHECKS.update({
    'C17': dict(cat='exploration', tech='position-coded byte stream verified at the output peer; return-code / band oracle against bytes actually buffered (fed - unread - arrived) and the read/write/splice results seen by the shim',
                text='Thousands of pumps with random lengths, chunkings, back-pressure, end of file, write errors and mid-way destruction, in splice mode and in read/write mode (splice probe made to fail), over pipes and UNIX stream sockets; every byte is checked at the output, every call\'s return value, iv_fd_pump_is_done and requested bands are checked, and a pump that neither finishes nor asks for a ready band is reported as a stall.',
                ref='3 C17', note='Trusted: harness/pump.c (feeder, drainer, conservation arithmetic via FIONREAD), the shim\'s view of the pump\'s own system calls, gcc ASan/UBSan. In splice mode "space remains" is the kernel pipe\'s business and is not second-guessed.'),
    'C20': dict(cat='exploration', tech='independent parse of the exact bytes read(2) from the inotify descriptor vs. handler entries, replaying handler-driven unregistrations; instance and watches malloc()ed with a fill pattern and freed at once under ASan/UBSan',
                text='Multi-event reads on files and directories with handlers that unregister their own watch, other watches, all watches or the instance at a planned delivery; every delivery must match the next kernel event that still has a registered watch (same watch, mask, cookie, name), nothing may be delivered after a one-shot / IN_IGNORED drop or an unregistration, and instances that never saw an event are unregistered too.',
                ref='3 C20', note='Trusted: the parser and replay in harness/inot.c, the shim\'s read(2) hook, gcc ASan/UBSan. Real inotify on the local filesystem of the sandbox.'),
})

CHECKS.update({
    'C10': dict(cat='exploration', tech='sigaction trampoline (one event per kernel delivery) + writes to the interests\' descriptors inside the library\'s signal handler (set woken) + handler-entry log; fan-out, hand-over, disposition and run obligations checked online and at detected quiescence',
                text='Multi-thread interest sets (exclusive / shared / this-thread) under thread-directed and process-directed deliveries, deliveries during handlers, register/unregister from handlers, forked children: for every unambiguous delivery the set woken must follow the documented fan-out; every woken interest must run in its thread by quiescence; a noted exclusive delivery must be handed over at unregister; SIG_DFL must be back after the last interest; no handler may run without a delivery (forked child).',
                ref='3 C10', note=MT_NOTE + ' Senders serialise per signal number; eventfd back-ends only.'),
})

CHECKS.update({
    'C11': dict(cat='exploration', tech='ground truth = every (pid, status) the library\'s wait4 returned and every kill() it issued (shim); per-pid sequence oracle at detected quiescence; scripted children as external actors',
                text='Populations of children with and without interests, in 1-3 threads, made to stop / continue / exit / die at scripted moments (also twice in a row and at once after being spawned); the statuses delivered to each interest must equal the statuses reaped for its pid, in order, up to the terminating one and in the registering thread; strangers must be reaped harmlessly; the kill helper must refuse once the death was reaped and never call kill() then; no zombie may remain.',
                ref='3 C11', note=MT_NOTE + ' Children count as external actors until the status change they were told to make has been reaped.'),
    'C19': dict(cat='exploration', tech='wrapped fork/kill/wait4 with virtual time-stamps + child side channel (stdio report, SIGTERM acknowledgements); signal-schedule, data-integrity, no-kill-after-reap and no-zombie oracles',
                text='Popen requests of both types with children of every behaviour and every close timing under virtual time: the wiring of the child\'s standard streams, the bytes in both directions, the sequence SIGTERM x5 then SIGKILL every 5 virtual seconds from the close, the absence of any signal after the termination was reaped, the reaping itself, the return of iv_main and the descriptor count are checked.',
                ref='3 C19', note=MT_NOTE + ' The child program is the harness executable in --popen-child mode.'),
})

CHECKS.update({
    'C14': dict(cat='exploration', tech='ThreadSanitizer (gcc -fsanitize=thread) on free-running multi-thread scenarios, every report block parsed and classified by racing location / outermost library frames',
                text='Seven families of multi-thread scenarios (event posts with the owner unregistering other pending events, raw posts, work pools with continuations and shutdown, signal storms against register/unregister, children reaped across threads with owner-initiated unregistration, concurrent init/main/deinit of independent loops, iv_thread churn) run without any monitor or shim under TSan on all four poll methods, repeated with different seeds; a data race is tolerated only on the named one-way feature flags.',
                ref='3 C14', note='Trusted: ThreadSanitizer\'s happens-before analysis (it only understands synchronisation it intercepts; epoll_pwait2 is made to fail with ENOSYS in this build so that the intercepted epoll_wait is used), the report parser in check. The harness itself shares only C11 atomics, two release/acquire flags, barriers and joins.'),
})

CHECKS.update({
    'C18': dict(cat='exploration', tech='ASan + UBSan + LeakSanitizer on every scenario family, valgrind memcheck on the plain build, descriptor / thread / heap deltas over init-use-deinit cycles and thread churn, module tear-down hook accounting, fcntl flag checks',
                text='Hundreds of init / mixed-use / tear-down cycles per poll method in the main thread, in threads that call iv_deinit and in threads that just exit (destructor path), with descriptor, thread and live-heap counts compared after every cycle and the per-module hooks counted; all other scenario families are re-run under the sanitizers, where any report with a library frame is a violation; small runs under valgrind memcheck look for uses of uninitialised memory.',
                ref='3 C18', note='Trusted: gcc ASan/UBSan/LSan, valgrind 3.19 memcheck, __sanitizer_get_current_allocated_bytes, /proc/self/fd and /proc/self/task. Red-zone tools miss non-adjacent overflows and reused freed memory; a clean run is not memory safety.'),
})

NOT_YET = {
}


def main():
    props = [json.loads(l) for l in open(os.path.join(HERE, 'properties.jsonl'))]
    checks = []
    na = []
    for p in props:
        pid = p['id']
        c = CHECKS.get(pid)
        if c is None:
            na.append({'property_id': pid, 'reason': NOT_YET.get(pid, 'check not built yet in this round (runtime-monitoring design exists in DESIGN.md section 3; no verdict is claimed until the harness is committed)')})
            continue
        checks.append({
            'property_id': pid,
            'quick_cmd': './check %s --tier quick' % pid,
            'thorough_cmd': './check %s --tier thorough' % pid,
            'evidence_file': 'evidence/%s.json' % pid,
            'replay_cmd_template': './check %s --replay {path}' % pid,
            'engine': 'runtime-monitors',
            'level_claimed': {'category': c['cat'], 'text': c['text'], 'design_ref': 'DESIGN.md ' + c['ref']},
            'level_note': c['note'],
            'technique': c['tech'],
        })
    man = {
        'version': 1,
        'setup_cmd': './setup.sh',
        'hooks': {
            'guard': 'IVYKIS_VERIF',
            'enable': 'every verification build compiles /repo/src/*.c with -DIVYKIS_VERIF (see check: cflags()); no source hook is needed so far: observation is at the API and at the link-time wrapped system-call boundary',
            'baseline_off_cmd': 'cd /repo && make -j16 >/dev/null 2>&1 && make check',
            'source_commits': [],
            'add_only': True,
        },
        'engines': [{'name': 'runtime-monitors', 'path': 'check', 'serves_properties': [c['property_id'] for c in checks],
                     'kind_free_text': 'python driver + C harnesses linked with the library objects and a --wrap system-call shim; gcc ASan/UBSan/TSan builds'}],
        'checks': checks,
        'not_applicable': na,
        'notes': 'All verdicts are "held on the executions observed"; exit 2 = inconclusive (never folded into 0 or 1). Known findings: known_findings.txt.',
    }
    json.dump(man, open(os.path.join(HERE, 'MANIFEST.json'), 'w'), indent=1)
    print('MANIFEST.json: %d checks, %d not_applicable' % (len(checks), len(na)))


if __name__ == '__main__':
    main()
