#!/bin/sh
# usage: mut_all.sh <outfile> [glob]   runs the quick check of its property against every seeded change under /verif/seeded
# (scratch copy per change, see try_mutant.sh); the output feeds tools/mut_summary.py
out="$1"; glob="${2:-*}"
: > "$out"
for d in /verif/seeded/$glob/; do
  n=$(basename "$d"); p=${n%-*}; x=${n#*-}
  [ -f "$d/patch.diff" ] || continue
  echo "== $p/$x" >> "$out"
  MUT_LINES=${MUT_LINES:-6} timeout 1500 /verif/tools/try_mutant.sh "$d/patch.diff" "$p" ${MUT_TIER:-quick} >> "$out" 2>&1
done
echo "ROUND-DONE" >> "$out"
