#!/bin/sh
# usage: soak.sh <outfile> <seeds> <prop>...   runs each check for each seed, records verdict lines
out="$1"; seeds="$2"; shift 2
: > "$out"
for s in $seeds; do
  for p in "$@"; do
    VERIF_SEED=$s VERIF_EVIDENCE_DIR=/tmp/soak_ev VERIF_REPLAY_DIR=/tmp/soak_replay /verif/check $p ${SOAK_TIER:+--tier $SOAK_TIER} 2>&1 | grep -E '^(VIOLATION|INCONCLUSIVE|  key=|C[0-9]+ )' | cut -c1-400 >> "$out"
  done
done
echo SOAK-DONE >> "$out"
