/*
 * ev.c - C08: iv_event posts from any thread are never lost, over-delivered or misrouted.
 *
 * 1-3 owner loop threads with several events each, 0-6 posting threads, posts from
 * handlers (own events: task path; other owners: remote path), handlers that unregister
 * their own / other (possibly pending) events and register new ones.  Perturbation at
 * every wrapped lock, kick and wait.  Obligations (post call -> later handler entry in
 * the owner) are evaluated at detected quiescence.  See DESIGN.md 3 C08.
 */
#include <iv_event.h>
#include <time.h>
#include <poll.h>
#define MT_SPIN_MONITOR
#include "mt.h"

#define MAXEV 64
struct evslot {
	struct iv_event		*e;
	int			owner;
	_Atomic int		state;		/* 0 free, 1 registered and postable, 2 closing */
	_Atomic int		inflight;
	_Atomic long		posts;
	_Atomic uint64_t	last_post_seq;
	_Atomic long		entries;
	_Atomic uint64_t	last_entry_seq;
};
static struct evslot ev[MAXEV];
static int actions_left[MAXLOOP];
/* a descriptor per owner that posters make readable, so that kicks and descriptor readiness arrive together */
static int noise[MAXLOOP][2];
static struct iv_fd *noise_fd[MAXLOOP];
static int idle_pipe[MAXLOOP][2];		/* never written to: its read end is never readable */
static struct iv_fd *idle_fd[MAXLOOP];	/* a struct that used to watch the noise descriptor, re-used in place for the idle one */
static _Atomic long idle_reuses;
static void idle_cb(void *cookie);
static _Atomic long noise_writes, noise_entries;
static _Atomic int posters_in_post, overlaps;
static _Atomic long total_posts, total_entries, remote_posts, self_posts, unreg_pending, regs, reregs_after_zero;
static int nposters, posts_per_poster;
static uint64_t case_seed;

static struct {
	uint64_t cases, posts, entries, overlaps_cases, obligations, discharged, unreg_pending, regs, quiescences, remote, self, zero_cross;
} S;

static void event_cb(void *cookie);
static void tk_register(struct loopthr *lt);
static void noise_cb(void *cookie);

static _Atomic long failed_regs, quit_reenters;

static int slot_register(struct loopthr *lt)
{
	int i, ret;
	uint64_t f0;
	for (i = 0; i < MAXEV; i++) {
		int exp = 0;
		if (atomic_compare_exchange_strong(&ev[i].state, &exp, 2))
			break;
	}
	if (i == MAXEV)
		return -1;
	ev[i].e = malloc(sizeof(struct iv_event));
	memset(ev[i].e, 0xA5, sizeof(struct iv_event));
	IV_EVENT_INIT(ev[i].e);
	ev[i].e->cookie = (void *)(uintptr_t)(i + 1);
	ev[i].e->handler = event_cb;
	ev[i].owner = lt->idx;
	ev[i].posts = 0;
	ev[i].entries = 0;
	ev[i].last_post_seq = 0;
	ev[i].last_entry_seq = 0;
	f0 = vt_fault_fired();
	ret = iv_event_register(ev[i].e);
	if (ret) {
		/* a registration that reports failure must leave the loop exactly as it was (C07); without an injected fault it must not fail */
		if (vt_fault_fired() == f0)
			mon_viol("C07", "event-register-failed", g_method, "iv_event_register failed (%d) without an injected fault", ret);
		else
			atomic_fetch_add(&failed_regs, 1);
		free(ev[i].e);
		ev[i].e = NULL;
		atomic_store(&ev[i].state, 0);
		return -1;
	}
	atomic_fetch_add(&regs, 1);
	ilv(lt->idx, 1, i);
	atomic_store(&ev[i].state, 1);
	return i;
}

static void slot_unregister(struct loopthr *lt, int i)
{
	int exp = 1;
	if (!atomic_compare_exchange_strong(&ev[i].state, &exp, 2))
		return;
	while (atomic_load(&ev[i].inflight) > 0)
		sched_yield();
	if (ev[i].last_post_seq > ev[i].last_entry_seq)
		atomic_fetch_add(&unreg_pending, 1);
	ilv(lt->idx, 2, i);
	iv_event_unregister(ev[i].e);
	free(ev[i].e);		/* may be freed at once (C01) */
	ev[i].e = NULL;
	atomic_store(&ev[i].state, 0);
}

/* post to slot i if it is postable; returns 1 if posted */
static int slot_post(int i, int thr, int from_owner)
{
	uint64_t s, old;

	if (atomic_load(&ev[i].state) != 1)
		return 0;
	atomic_fetch_add(&ev[i].inflight, 1);
	if (atomic_load(&ev[i].state) != 1) {
		atomic_fetch_sub(&ev[i].inflight, 1);
		return 0;
	}
	if (atomic_fetch_add(&posters_in_post, 1) > 0)
		atomic_fetch_add(&overlaps, 1);
	atomic_fetch_add(&ev[i].posts, 1);
	atomic_fetch_add(&total_posts, 1);
	if (from_owner == ev[i].owner)
		atomic_fetch_add(&self_posts, 1);
	else
		atomic_fetch_add(&remote_posts, 1);
	s = seq_next();
	old = atomic_load(&ev[i].last_post_seq);
	while (old < s && !atomic_compare_exchange_weak(&ev[i].last_post_seq, &old, s))
		;
	ilv(thr, 3, i);
	iv_event_post(ev[i].e);
	atomic_fetch_sub(&posters_in_post, 1);
	atomic_fetch_sub(&ev[i].inflight, 1);
	return 1;
}

static void event_cb(void *cookie)
{
	int i = (int)(uintptr_t)cookie - 1, k;
	struct loopthr *lt;
	long en, po;

	MT_CB();
	if (i < 0 || i >= MAXEV || atomic_load(&ev[i].state) == 0) {
		mon_viol("C01", "stale-handler", "event", "event handler invoked for slot %d which is not registered", i);
		mon_viol("C08", "handler-of-unregistered", "event", "event handler invoked for slot %d which is not registered", i);
		return;
	}
	lt = &loops[ev[i].owner];
	if (!pthread_equal(pthread_self(), lt->th))
		mon_viol("C08", "wrong-thread", g_method, "handler of event %d (owner loop %d) invoked in another thread", i, ev[i].owner);
	en = atomic_fetch_add(&ev[i].entries, 1) + 1;
	atomic_store(&ev[i].last_entry_seq, seq_next());
	po = atomic_load(&ev[i].posts);
	atomic_fetch_add(&total_entries, 1);
	ilv(lt->idx, 4, i);
	if (en > po)
		mon_viol("C08", "more-entries-than-posts", g_method, "event %d: %ld handler entries for %ld posts begun", i, en, po);

	if (mt_phase || actions_left[lt->idx] <= 0)
		return;
	actions_left[lt->idx]--;
	if (rng_pct(&lt->rng, 12) && noise_fd[lt->idx] != NULL) {
		/* drop the descriptor that posters keep making readable and register a fresh struct for it: its readiness may be in the same batch as this kick */
		iv_fd_unregister(noise_fd[lt->idx]);
		if (idle_pipe[lt->idx][0] > 0 && rng_pct(&lt->rng, 45)) {
			/* the struct is used again at once, in place, for a descriptor that is never ready: whatever readiness the library had
			 * collected for the old registration must not be charged to the new one */
			struct iv_fd *f = noise_fd[lt->idx];
			if (idle_fd[lt->idx] != NULL) {
				iv_fd_unregister(idle_fd[lt->idx]);
				memset(idle_fd[lt->idx], 0xDD, sizeof(struct iv_fd));
				free(idle_fd[lt->idx]);
			}
			IV_FD_INIT(f);
			f->fd = idle_pipe[lt->idx][0];
			f->cookie = lt;
			f->handler_in = idle_cb;
			iv_fd_register(f);
			idle_fd[lt->idx] = f;
			atomic_fetch_add(&idle_reuses, 1);
		} else {
			memset(noise_fd[lt->idx], 0xDD, sizeof(struct iv_fd));
			free(noise_fd[lt->idx]);
		}
		noise_fd[lt->idx] = malloc(sizeof(struct iv_fd));
		IV_FD_INIT(noise_fd[lt->idx]);
		noise_fd[lt->idx]->fd = noise[lt->idx][0];
		noise_fd[lt->idx]->cookie = lt;
		noise_fd[lt->idx]->handler_in = noise_cb;
		iv_fd_register(noise_fd[lt->idx]);
	}
	if (rng_pct(&lt->rng, 25))
		tk_register(lt);
	k = rng_n(&lt->rng, 100);
	if (k < 18) {			/* post again: own event (task path) or any event */
		int j = rng_pct(&lt->rng, 50) ? i : (int)rng_n(&lt->rng, MAXEV);
		slot_post(j, lt->idx, lt->idx);
	} else if (k < 30) {		/* unregister another event of this owner (it may be pending) */
		int j, tries;
		for (tries = 0; tries < 8; tries++) {
			j = rng_n(&lt->rng, MAXEV);
			if (j != i && atomic_load(&ev[j].state) == 1 && ev[j].owner == lt->idx) {
				slot_unregister(lt, j);
				break;
			}
		}
	} else if (k < 36) {		/* unregister self from the handler */
		slot_unregister(lt, i);
	} else if (k < 42) {		/* drop every event of this loop, then start again: the kick object is torn down and re-created */
		int j;
		for (j = 0; j < MAXEV; j++)
			if (atomic_load(&ev[j].state) == 1 && ev[j].owner == lt->idx)
				slot_unregister(lt, j);
		atomic_fetch_add(&reregs_after_zero, 1);
		slot_register(lt);
		if (rng_pct(&lt->rng, 50))
			slot_register(lt);
	} else if (k < 52) {		/* register a new event (the kick object may just have been torn down) */
		int own = 0, j;
		for (j = 0; j < MAXEV; j++)
			own += atomic_load(&ev[j].state) == 1 && ev[j].owner == lt->idx;
		if (own == 0)
			atomic_fetch_add(&reregs_after_zero, 1);
		slot_register(lt);
	} else if (k < 58) {		/* leave iv_main() from this handler (other events of the batch and ready descriptors stay undispatched) and re-enter */
		atomic_fetch_add(&quit_reenters, 1);
		mt_quit_reenter(lt);
	}
}

static void scn_spin(struct loopthr *lt, struct vt_wait *w)
{
	int i, n = 0;
	/* C07: "every wake-up makes progress instead of polling repeatedly without dispatching anything" */
	mon_viol("C07", "spin-without-dispatch", g_method,
		 "loop %d went through 3000 consecutive poll rounds that reported ready descriptors (last: %d) without the library making a single call-back",
		 lt->idx, w->ret);
	for (i = 0; i < MAXEV; i++) {
		if (atomic_load(&ev[i].state) != 1 || ev[i].owner != lt->idx || !(ev[i].last_post_seq > ev[i].last_entry_seq))
			continue;
		n++;
		mon_viol("C08", "spinning-with-undelivered-post", g_method,
			 "loop %d went through 3000 poll rounds that reported ready descriptors without running a single handler; event %d has an undelivered post (posts %ld, handler entries %ld; loop re-entered %ld times after iv_quit from a handler)",
			 lt->idx, i, (long)ev[i].posts, (long)ev[i].entries, lt->reentries);
	}
	if (n == 0)
		mon_printf("NOTE spin without an undelivered post in loop %d\n", lt->idx);
}

static void noise_cb(void *cookie);
static struct iv_timer *far_timer[MAXLOOP];
static void far_cb(void *c) { struct loopthr *lt = c; MT_CB(); free(far_timer[lt->idx]); far_timer[lt->idx] = NULL; }

static void idle_cb(void *cookie)
{
	struct loopthr *lt = cookie;
	struct pollfd pf = { idle_pipe[lt->idx][0], POLLIN, 0 };
	int r;
	MT_CB();
	r = __real_poll(&pf, 1, 0);
	mon_viol("C03", "handler-without-condition", g_method,
		 "the input handler of descriptor %d (a pipe nobody ever writes to; poll(2) says revents 0x%x) was invoked: readiness collected for an earlier registration of the same struct was charged to it",
		 pf.fd, r > 0 ? (unsigned)pf.revents : 0u);
	mon_viol("C01", "stale-readiness", "fd", "readiness collected before an unregister call was acted upon after it (struct re-used for another descriptor)");
}

static void noise_cb(void *cookie)
{
	struct loopthr *lt = cookie;
	char buf[256];
	MT_CB();
	while (__real_read(noise[lt->idx][0], buf, sizeof(buf)) > 0)
		;
	atomic_fetch_add(&noise_entries, 1);
	if (rng_pct(&lt->rng, 30)) {
		struct timespec ts = { 0, 1000 * (1 + (long)rng_n(&lt->rng, 200)) };
		nanosleep(&ts, NULL);		/* the owner is busy outside its kernel wait for a moment */
	}
}

static void scn_setup(struct loopthr *lt)
{
	idle_fd[lt->idx] = NULL;
	if (__real_pipe(idle_pipe[lt->idx]) < 0)
		idle_pipe[lt->idx][0] = idle_pipe[lt->idx][1] = -1;
	if (__real_pipe(noise[lt->idx]) == 0) {
		fcntl(noise[lt->idx][0], F_SETFL, O_NONBLOCK);
		fcntl(noise[lt->idx][1], F_SETFL, O_NONBLOCK);
		noise_fd[lt->idx] = malloc(sizeof(struct iv_fd));
		IV_FD_INIT(noise_fd[lt->idx]);
		noise_fd[lt->idx]->fd = noise[lt->idx][0];
		noise_fd[lt->idx]->cookie = lt;
		noise_fd[lt->idx]->handler_in = noise_cb;
		iv_fd_register(noise_fd[lt->idx]);
	}
	int n = 1 + rng_n(&lt->rng, 6), i;
	for (i = 0; i < n; i++)
		slot_register(lt);
	actions_left[lt->idx] = 10 + rng_n(&lt->rng, 60);
	if (rng_pct(&lt->rng, 60)) {
		/* a far timer: with an unchanged earliest deadline over several wake-ups the timer-descriptor path engages */
		far_timer[lt->idx] = malloc(sizeof(struct iv_timer));
		IV_TIMER_INIT(far_timer[lt->idx]);
		iv_validate_now();
		far_timer[lt->idx]->expires = iv_now;
		far_timer[lt->idx]->expires.tv_sec += 30 + rng_n(&lt->rng, 100);
		far_timer[lt->idx]->cookie = lt;
		far_timer[lt->idx]->handler = far_cb;
		iv_timer_register(far_timer[lt->idx]);
	}
	if (rng_pct(&lt->rng, 50))
		tk_register(lt);
}

static void scn_ctl(struct loopthr *lt, char cmd)
{
	int i;
	if (cmd != 'T')
		return;
	if (far_timer[lt->idx] != NULL) {
		iv_timer_unregister(far_timer[lt->idx]);
		free(far_timer[lt->idx]);
		far_timer[lt->idx] = NULL;
	}
	if (idle_fd[lt->idx] != NULL) {
		iv_fd_unregister(idle_fd[lt->idx]);
		free(idle_fd[lt->idx]);
		idle_fd[lt->idx] = NULL;
	}
	if (idle_pipe[lt->idx][0] > 0) {
		__real_close(idle_pipe[lt->idx][0]);
		__real_close(idle_pipe[lt->idx][1]);
		idle_pipe[lt->idx][0] = idle_pipe[lt->idx][1] = -1;
	}
	if (noise_fd[lt->idx] != NULL) {
		iv_fd_unregister(noise_fd[lt->idx]);
		free(noise_fd[lt->idx]);
		noise_fd[lt->idx] = NULL;
		__real_close(noise[lt->idx][0]);
		__real_close(noise[lt->idx][1]);
	}
	for (i = 0; i < MAXEV; i++)
		if (atomic_load(&ev[i].state) == 1 && ev[i].owner == lt->idx)
			slot_unregister(lt, i);
}

static void scn_after_main(struct loopthr *lt)
{
	if (!lt->torn)
		mon_viol("C07", "main-returned-early", g_method, "iv_main of loop %d returned before tear-down although events and the control descriptor are registered", lt->idx);
}

static int scn_next_phase(void) { return 0; }

/* tasks registered by the owners (C06 across threads): registered by one loop, must run once, in that loop's thread */
#define MAXTK 64
struct tkslot { struct iv_task t; int owner; _Atomic int state; int chain; };	/* state: 0 free, 1 registered, 2 ran */
static struct tkslot tks[MAXTK];
static _Atomic long tasks_registered, tasks_ran;

static void tk_cb(void *c)
{
	struct tkslot *k = c;
	struct loopthr *lt = &loops[k->owner];
	MT_CB();
	if (!pthread_equal(pthread_self(), lt->th))
		mon_viol("C06", "task-wrong-thread", g_method, "a task registered by loop %d ran in another thread", k->owner);
	if (atomic_exchange(&k->state, 2) != 1)
		mon_viol("C06", "task-ran-unregistered", g_method, "a task of loop %d ran although it was not registered (or ran twice)", k->owner);
	atomic_fetch_add(&tasks_ran, 1);
	if (rng_pct(&lt->rng, 40)) {
		struct timespec ts = { 0, 1000 * (1 + (long)rng_n(&lt->rng, 150)) };
		nanosleep(&ts, NULL);		/* other loops register tasks of their own meanwhile */
	}
	if (k->chain > 0 && !atomic_load(&mt_phase)) {
		k->chain--;
		atomic_store(&k->state, 1);
		atomic_fetch_add(&tasks_registered, 1);
		iv_task_register(&k->t);
	} else {
		atomic_store(&k->state, 0);
	}
}

static void tk_register(struct loopthr *lt)
{
	int i;
	for (i = lt->idx; i < MAXTK; i += MAXLOOP) {	/* each loop has its own slots */
		int exp = 0;
		if (atomic_compare_exchange_strong(&tks[i].state, &exp, 1)) {
			IV_TASK_INIT(&tks[i].t);
			tks[i].t.cookie = &tks[i];
			tks[i].t.handler = tk_cb;
			tks[i].owner = lt->idx;
			tks[i].chain = rng_n(&lt->rng, 3);
			atomic_fetch_add(&tasks_registered, 1);
			iv_task_register(&tks[i].t);
			return;
		}
	}
}

void hk_idle(void)
{
	int i;
	if (atomic_load(&mt_phase))
		return;
	for (i = 0; i < MAXEV; i++) {
		if (atomic_load(&ev[i].state) != 1)
			continue;
		if (ev[i].last_post_seq > ev[i].last_entry_seq) {
			mon_viol("C08", "blocked-with-undelivered-post", g_method,
				 "every thread is blocked (only an unrelated deadline can wake the owner) and event %d of loop %d has an undelivered post (posts %ld, handler entries %ld)",
				 i, ev[i].owner, (long)ev[i].posts, (long)ev[i].entries);
			mon_viol("C07", "blocks-while-event-due", g_method, "every thread is blocked although event %d of loop %d has an undelivered post: the loop sleeps while something is due", i, ev[i].owner);
		}
	}
	for (i = 0; i < MAXTK; i++)
		if (atomic_load(&tks[i].state) == 1)
			mon_viol("C06", "task-not-run-before-sleep", g_method, "every thread is blocked and a task registered by loop %d has not run", tks[i].owner);
}

static void scn_quiescent_check(void)
{
	int i;
	S.quiescences++;
	for (i = 0; i < MAXEV; i++) {
		if (atomic_load(&ev[i].state) != 1)
			continue;
		if (ev[i].posts > 0)
			S.obligations++;
		if (ev[i].last_post_seq > ev[i].last_entry_seq) {
			mon_viol("C08", "lost-post", g_method,
				 "every thread is blocked and event %d of loop %d has an undelivered post (posts %ld, handler entries %ld, last post seq %llu, last entry seq %llu)",
				 i, ev[i].owner, (long)ev[i].posts, (long)ev[i].entries,
				 (unsigned long long)ev[i].last_post_seq, (unsigned long long)ev[i].last_entry_seq);
		} else if (ev[i].posts > 0) {
			S.discharged++;
		}
	}
}

static void scn_dead_end(void)
{
	mon_viol("C07", "hang-after-teardown", g_method, "tear-down was requested but a loop thread stays blocked for ever");
	mon_viol("C08", "hang-after-teardown", g_method, "tear-down was requested but a loop thread stays blocked for ever (kick object / loop reference not released)");
}

struct poster { pthread_t th; int idx; struct rng rng; };

static void *poster_main(void *v)
{
	struct poster *p = v;
	int n = posts_per_poster, guard = 0;

	while (n > 0 && guard++ < 100000) {
		int i = rng_n(&p->rng, MAXEV);
		if (rng_pct(&p->rng, 35) && atomic_load(&ev[i].state) == 1 && !atomic_load(&mt_phase)) {
			if (__real_write(noise[ev[i].owner][1], "x", 1) > 0)
				atomic_fetch_add(&noise_writes, 1);
		}
		if (slot_post(i, 100 + p->idx, -1)) {
			n--;
			if (rng_pct(&p->rng, 10))
				sched_yield();
		} else if (!atomic_load(&mt_phase)) {
			int j, any = 0;
			for (j = 0; j < MAXEV; j++)
				any |= atomic_load(&ev[j].state) == 1;
			if (!any)
				break;
		} else {
			break;
		}
	}
	return NULL;
}

static void run_case(long id, uint64_t seed)
{
	struct rng r;
	struct poster posters[8];
	int i, nl;

	mon_case_id = id;
	mon_viol_case = 0;
	mon_watchdog(60);
	case_seed = mix64(seed ^ (uint64_t)id * 0x9E3779B97F4A7C15ULL);
	rng_seed(&r, seed, (uint64_t)id);
	vt_reset_case(case_seed);
	vt_set_single(0);
	memset(ev, 0, sizeof(ev));
	memset(tks, 0, sizeof(tks));
	atomic_store(&ilv_hash, 0x77);
	atomic_store(&overlaps, 0);
	atomic_store(&total_posts, 0);
	atomic_store(&total_entries, 0);
	atomic_store(&remote_posts, 0);
	atomic_store(&self_posts, 0);
	atomic_store(&unreg_pending, 0);
	atomic_store(&regs, 0);
	atomic_store(&reregs_after_zero, 0);

	nl = 1 + rng_n(&r, 3);
	nposters = rng_n(&r, 7);
	posts_per_poster = 3 + rng_n(&r, 50);
	mt_start_loops(nl, case_seed);
	for (i = 0; i < nposters; i++) {
		posters[i].idx = i;
		rng_seed(&posters[i].rng, case_seed, 5000 + i);
		pthread_create(&posters[i].th, NULL, poster_main, &posters[i]);
	}
	if (nposters == 0) {
		/* only handler-originated posts: seed each owner with one post from the main thread */
		for (i = 0; i < MAXEV; i++)
			slot_post(i, 99, -1);
	}
	for (i = 0; i < nposters; i++)
		pthread_join(posters[i].th, NULL);
	mt_join_loops();
	mt_check_thread_fds(g_method);

	if (n_thr_created != n_thr_joined + n_thr_detached)
		mon_viol("C13", "thread-not-joined", g_method, "%ld threads created, %ld joined, %ld detached", (long)n_thr_created, (long)n_thr_joined, (long)n_thr_detached);
	for (i = 0; i < MAXEV; i++)
		if (atomic_load(&ev[i].state) != 0)
			mon_viol("C08", "harness-leftover", g_method, "slot %d still registered after tear-down", i);

	S.cases++;
	S.posts += total_posts;
	S.entries += total_entries;
	S.unreg_pending += unreg_pending;
	S.regs += regs;
	S.remote += remote_posts;
	S.self += self_posts;
	S.zero_cross += reregs_after_zero;
	if (overlaps)
		S.overlaps_cases++;
	mon_printf("CASE id=%ld trace=%016llx nt=%d loops=%d posters=%d posts=%ld entries=%ld overlaps=%d viol=%d\n", id,
		   (unsigned long long)atomic_load(&ilv_hash), overlaps > 0 || (remote_posts > 0 && nl > 0), nl, nposters,
		   (long)total_posts, (long)total_entries, (int)overlaps, mon_viol_case);
	if (id % 97 == 0)
		mon_printf("SAMPLE case=%ld method=%s loops=%d posters=%d posts_per_poster=%d posts=%ld (remote %ld, from-owner %ld) handler_entries=%ld events_registered=%ld unregistered_while_pending=%ld overlapping_posts=%d\n",
			   id, g_method, nl, nposters, posts_per_poster, (long)total_posts, (long)remote_posts, (long)self_posts,
			   (long)total_entries, (long)regs, (long)unreg_pending, (int)overlaps);
}

int main(int argc, char **argv)
{
	long first = arg_ll(argc, argv, "--first", 0), n = arg_ll(argc, argv, "--cases", 50), i;
	uint64_t seed = (uint64_t)arg_ll(argc, argv, "--seed", 1);

	g_prop = "C08";
	vt_init();
	vt_set_perturb((int)arg_ll(argc, argv, "--perturb", 1));
	iv_set_fatal_msg_handler(mt_fatal);
	signal(SIGPIPE, SIG_IGN);
	mt_learn_method();
	for (i = first; i < first + n; i++)
		run_case(i, seed);
	mon_printf("STAT method=%s cases=%llu posts=%llu handler_entries=%llu remote_posts=%llu owner_posts=%llu cases_with_overlapping_posts=%llu "
		   "obligations=%llu discharged=%llu unregistered_while_pending=%llu events_registered=%llu kick_object_recreated=%llu "
		   "noise_writes=%llu noise_handler_entries=%llu tasks_registered=%ld tasks_ran=%ld failed_registrations_under_fault=%ld quit_and_reenter=%ld structs_reused_for_idle_descriptor=%ld final_quiescences=%llu shim_quiescences=%llu time_advances=%llu perturb_yield=%llu perturb_sleep=%llu priority_changes=%llu priority_deferrals=%llu threads_created=%llu injected=%llu violations=%d\n",
		   g_method, (unsigned long long)S.cases, (unsigned long long)S.posts, (unsigned long long)S.entries,
		   (unsigned long long)S.remote, (unsigned long long)S.self, (unsigned long long)S.overlaps_cases,
		   (unsigned long long)S.obligations, (unsigned long long)S.discharged, (unsigned long long)S.unreg_pending,
		   (unsigned long long)S.regs, (unsigned long long)S.zero_cross, (unsigned long long)noise_writes, (unsigned long long)noise_entries, (long)tasks_registered, (long)tasks_ran, (long)failed_regs, (long)quit_reenters, (long)idle_reuses, (unsigned long long)S.quiescences,
		   (unsigned long long)vt_stats.quiescences, (unsigned long long)vt_stats.time_advances,
		   (unsigned long long)vt_stats.perturb_yield, (unsigned long long)vt_stats.perturb_sleep, (unsigned long long)vt_stats.pct_changes, (unsigned long long)vt_stats.pct_deferrals,
		   (unsigned long long)vt_stats.threads_created, (unsigned long long)vt_stats.injected, mon_viol_total);
	mon_printf("DONE\n");
	return 0;
}
