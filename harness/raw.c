/*
 * raw.c - C09: iv_event_raw posts from the owner, other threads, a signal handler and a
 * forked child reach the registering thread; posting never blocks; eventfd / old eventfd /
 * pipe back-ends behave alike (one back-end per process, selected by fault plan).
 * See DESIGN.md 3 C09.
 */
#include <signal.h>
#include <sys/wait.h>
#include <iv_event_raw.h>
#include <poll.h>
#define MT_SPIN_MONITOR
#include "mt.h"

#define MAXRAW 32
struct rawslot {
	struct iv_event_raw	*e;
	int			owner;
	_Atomic int		state;		/* 0 free, 1 postable, 2 closing */
	_Atomic int		inflight;
	_Atomic long		posts;
	_Atomic uint64_t	last_post_seq;
	_Atomic long		entries;
	_Atomic uint64_t	last_entry_seq;
	_Atomic int		wfd;
};
static struct rawslot rw[MAXRAW];
static _Atomic unsigned char is_raw_wfd[4096];
static int actions_left[MAXLOOP];
static _Atomic long total_posts, total_entries, sig_posts, thread_posts, owner_posts, child_posts, burst_posts, blocking_checked, eagain_writes;
static pthread_t main_thread;
static _Atomic long failed_registers, handler_bursts, quit_reenters;
static _Atomic int sig_target = -1;
static pid_t child_pid;
static _Atomic int child_alive;
/* the forked child announces every post on one pipe and waits for an acknowledgement on another before the next one */
static int ch_ann[2] = { -1, -1 }, ch_ack[2] = { -1, -1 };
static _Atomic int ch_announced, ch_made, ch_acked, ch_target = -1;
static int64_t ch_stuck_since;
static int ch_stuck_acked;
static _Atomic long child_posts_acked, child_posts_lost;
static int g_burst, bursts_done;

static struct {
	uint64_t cases, posts, entries, sig_posts, thread_posts, owner_posts, child_posts, burst_posts, obligations, discharged,
		 blocking_checked, eagain, children, bursts;
} S;

static void raw_cb(void *cookie);

static int slot_register(struct loopthr *lt)
{
	int i, ret, fl;
	uint64_t f0;
	for (i = 0; i < MAXRAW; i++) {
		int exp = 0;
		if (atomic_compare_exchange_strong(&rw[i].state, &exp, 2))
			break;
	}
	if (i == MAXRAW)
		return -1;
	rw[i].e = malloc(sizeof(struct iv_event_raw));
	memset(rw[i].e, 0xA5, sizeof(struct iv_event_raw));
	IV_EVENT_RAW_INIT(rw[i].e);
	rw[i].e->cookie = (void *)(uintptr_t)(i + 1);
	rw[i].e->handler = raw_cb;
	rw[i].owner = lt->idx;
	rw[i].posts = 0;
	rw[i].entries = 0;
	rw[i].last_post_seq = 0;
	rw[i].last_entry_seq = 0;
	f0 = vt_fault_fired();
	ret = iv_event_raw_register(rw[i].e);
	if (ret) {
		if (vt_fault_fired() == f0)
			mon_viol("C07", "raw-register-failed", g_method, "iv_event_raw_register failed (%d) without a fault that explains it", ret);
		else
			atomic_fetch_add(&failed_registers, 1);
		free(rw[i].e);
		rw[i].e = NULL;
		atomic_store(&rw[i].state, 0);
		return -1;
	}
	rw[i].wfd = rw[i].e->event_wfd;
	if (rw[i].wfd >= 0 && rw[i].wfd < 4096)
		is_raw_wfd[rw[i].wfd] = 1;
	fl = fcntl(rw[i].wfd, F_GETFL);
	if (fl >= 0 && !(fl & O_NONBLOCK))
		mon_viol("C09", "post-descriptor-blocking", g_method, "the descriptor a post writes to (%d) is in blocking mode after registration", (int)rw[i].wfd);
	fl = fcntl(rw[i].wfd, F_GETFD);
	if (fl >= 0 && !(fl & FD_CLOEXEC))
		mon_viol("C18", "fd-flags", "raw-event", "raw event descriptor %d is not close-on-exec", (int)rw[i].wfd);
	ilv(lt->idx, 1, i);
	atomic_store(&rw[i].state, 1);
	return i;
}

static void slot_unregister(struct loopthr *lt, int i)
{
	int exp = 1;
	if (!atomic_compare_exchange_strong(&rw[i].state, &exp, 2))
		return;
	while (atomic_load(&rw[i].inflight) > 0)
		sched_yield();
	if (rw[i].wfd >= 0 && rw[i].wfd < 4096)
		is_raw_wfd[rw[i].wfd] = 0;
	ilv(lt->idx, 2, i);
	iv_event_raw_unregister(rw[i].e);
	free(rw[i].e);
	rw[i].e = NULL;
	atomic_store(&rw[i].state, 0);
}

/* async-signal-safe */
static int slot_post(int i, int n, _Atomic long *ctr)
{
	uint64_t s, old;
	int k;

	if (i < 0 || atomic_load(&rw[i].state) != 1)
		return 0;
	atomic_fetch_add(&rw[i].inflight, 1);
	if (atomic_load(&rw[i].state) != 1) {
		atomic_fetch_sub(&rw[i].inflight, 1);
		return 0;
	}
	if (n > 16)
		vt_no_perturb++;
	for (k = 0; k < n; k++) {
		atomic_fetch_add(&rw[i].posts, 1);
		s = seq_next();
		old = atomic_load(&rw[i].last_post_seq);
		while (old < s && !atomic_compare_exchange_weak(&rw[i].last_post_seq, &old, s))
			;
		iv_event_raw_post(rw[i].e);
	}
	if (n > 16)
		vt_no_perturb--;
	atomic_fetch_add(&total_posts, n);
	atomic_fetch_add(ctr, n);
	atomic_fetch_sub(&rw[i].inflight, 1);
	return 1;
}

void hk_write(int fd, const void *buf, size_t n, long ret, int err, int nonblock)
{
	(void)buf; (void)n;
	if (fd < 0 || fd >= 4096 || !is_raw_wfd[fd])
		return;
	atomic_fetch_add(&blocking_checked, 1);
	if (!nonblock)
		mon_viol("C09", "post-may-block", g_method, "iv_event_raw_post wrote to descriptor %d which is in blocking mode", fd);
	if (ret < 0 && err == EAGAIN)
		atomic_fetch_add(&eagain_writes, 1);
}

/* reads what the child announced so far and acknowledges every announced post (a handler run of the target object follows them all) */
static void child_drain_announcements(void)
{
	static atomic_flag drain_lock = ATOMIC_FLAG_INIT;
	char b[16];
	long n, k;
	/* reading the bytes and counting them is one step with respect to the other reader (the handler and the look at a stuck child
	 * may run at the same time: a handler that finds the pipe empty must also find what was read from it already counted) */
	while (atomic_flag_test_and_set(&drain_lock))
		sched_yield();
	while (ch_ann[0] >= 0 && (n = __real_read(ch_ann[0], b, sizeof(b))) > 0)
		for (k = 0; k < n; k++)
			atomic_fetch_add(b[k] == 'p' ? &ch_announced : &ch_made, 1);
	atomic_flag_clear(&drain_lock);
}

static void child_ack(void)
{
	child_drain_announcements();
	while (atomic_load(&ch_acked) < atomic_load(&ch_announced)) {
		if (__real_write(ch_ack[1], "a", 1) != 1)
			break;
		atomic_fetch_add(&ch_acked, 1);
		atomic_fetch_add(&child_posts_acked, 1);
	}
}

int __real_poll(struct pollfd *, nfds_t, int);
/* every thread is blocked and the child is still there: if it has made a post (it says so once the write has returned) that no handler
 * run has followed since it was announced, the post is lost - the child waits for the acknowledgement for ever.  The child is an
 * external actor and may be slow for any length of time between its steps, so nothing is concluded from an announcement alone; once
 * the post is made, the only thing still legitimately under way is the owner's wake-up (the descriptor is readable and the thread
 * is about to run), which gets a generous allowance of real time, keyed to this one post. */
void hk_ext_stuck(void)
{
	int64_t now = mt_real_ns();
	struct pollfd p;
	int tgt = atomic_load(&ch_target), readable;
	if (!atomic_load(&child_alive) || ch_ann[0] < 0 || tgt < 0)
		return;
	child_drain_announcements();
	if (atomic_load(&ch_made) <= atomic_load(&ch_acked)) {
		ch_stuck_since = 0;
		return;
	}
	p.fd = rw[tgt].e->event_rfd.fd; p.events = POLLIN; p.revents = 0;
	readable = __real_poll(&p, 1, 0) > 0 && (p.revents & POLLIN);
	if (ch_stuck_since == 0 || ch_stuck_acked != atomic_load(&ch_acked)) {
		ch_stuck_since = now;
		ch_stuck_acked = atomic_load(&ch_acked);
		return;
	}
	if (now - ch_stuck_since < (readable ? 5000000000LL : 1000000000LL))
		return;
	ch_stuck_since = 0;
	atomic_fetch_add(&child_posts_lost, 1);
	mon_viol("C09", "lost-post-from-child", g_method,
		 "the forked child announced post number %d to raw event %d and made it, but no handler run followed (%d acknowledged, the descriptor is %s): every thread is blocked and the child waits for ever",
		 (int)atomic_load(&ch_acked) + 1, tgt, (int)atomic_load(&ch_acked), readable ? "readable but its owner does not wake up" : "not readable");
	__real_kill(child_pid, SIGKILL);
}

static void usr1_handler(int sig)
{
	(void)sig;
	slot_post(atomic_load(&sig_target), 1, &sig_posts);
}

static void raw_cb(void *cookie)
{
	int i = (int)(uintptr_t)cookie - 1, k;
	struct loopthr *lt;

	MT_CB();
	if (i < 0 || i >= MAXRAW || atomic_load(&rw[i].state) == 0) {
		mon_viol("C01", "stale-handler", "raw", "raw event handler invoked for slot %d which is not registered", i);
		return;
	}
	lt = &loops[rw[i].owner];
	if (!pthread_equal(pthread_self(), lt->th))
		mon_viol("C09", "wrong-thread", g_method, "handler of raw event %d (registered in loop %d) invoked in another thread", i, rw[i].owner);
	atomic_fetch_add(&rw[i].entries, 1);
	atomic_store(&rw[i].last_entry_seq, seq_next());
	atomic_fetch_add(&total_entries, 1);
	ilv(lt->idx, 4, i);
	if (atomic_load(&child_alive) && i == atomic_load(&ch_target))
		child_ack();

	if (mt_phase || actions_left[lt->idx] <= 0)
		return;
	actions_left[lt->idx]--;
	k = rng_n(&lt->rng, 100);
	if (k < 6) {			/* a burst from the handler itself (the owner cannot drain meanwhile): exactly 1024 or 2048 posts, or more than a pipe holds */
		static const int sizes[] = { 1024, 2048, 1024, 66000 };
		int nb = sizes[rng_n(&lt->rng, g_burst ? 4 : 3)];
		slot_post(rng_pct(&lt->rng, 70) ? i : (int)rng_n(&lt->rng, MAXRAW), nb, &owner_posts);
		atomic_fetch_add(&handler_bursts, 1);
		actions_left[lt->idx] = 0;	/* nothing else from this loop: the burst stays the last word */
	} else if (k < 20) {		/* post while the handler runs: own object or any other */
		slot_post(rng_pct(&lt->rng, 50) ? i : (int)rng_n(&lt->rng, MAXRAW), 1 + rng_n(&lt->rng, 3), &owner_posts);
	} else if (k < 28 && i != atomic_load(&sig_target)) {
		slot_unregister(lt, i);
	} else if (k < 36) {
		int j = rng_n(&lt->rng, MAXRAW);
		if (j != i && j != atomic_load(&sig_target) && atomic_load(&rw[j].state) == 1 && rw[j].owner == lt->idx)
			slot_unregister(lt, j);
	} else if (k < 48) {
		slot_register(lt);
	} else if (k < 56) {
		/* leave iv_main() from this handler, with whatever else is ready in the same round still undispatched, and re-enter */
		atomic_fetch_add(&quit_reenters, 1);
		mt_quit_reenter(lt);
	}
}

int __real_poll(struct pollfd *, nfds_t, int);
static void scn_spin(struct loopthr *lt, struct vt_wait *w)
{
	int i, n = 0;
	/* C07: "every wake-up makes progress instead of polling repeatedly without dispatching anything" */
	mon_viol("C07", "spin-without-dispatch", g_method,
		 "loop %d went through 3000 consecutive poll rounds that reported ready descriptors (last: %d) without the library making a single call-back",
		 lt->idx, w->ret);
	for (i = 0; i < MAXRAW; i++) {
		struct pollfd p;
		if (atomic_load(&rw[i].state) != 1 || rw[i].owner != lt->idx || !(rw[i].last_post_seq > rw[i].last_entry_seq))
			continue;
		p.fd = rw[i].e->event_rfd.fd; p.events = POLLIN; p.revents = 0;
		if (__real_poll(&p, 1, 0) == 1 && (p.revents & POLLIN)) {
			n++;
			mon_viol("C09", "ready-but-never-dispatched", g_method,
				 "loop %d went through 3000 poll rounds that reported ready descriptors without running a single handler; raw event %d has a post without a later handler run (posts %ld, runs %ld) and its descriptor %d is readable (loop re-entered %ld times after iv_quit from a handler)",
				 lt->idx, i, (long)rw[i].posts, (long)rw[i].entries, p.fd, lt->reentries);
		}
	}
	if (n == 0)
		mon_printf("NOTE spin without an undelivered raw post in loop %d\n", lt->idx);
}

static void scn_setup(struct loopthr *lt)
{
	int n = 1 + rng_n(&lt->rng, 4), i, first = -1;
	for (i = 0; i < n; i++) {
		int s = slot_register(lt);
		if (first < 0)
			first = s;
	}
	if (lt->idx == 0)
		atomic_store(&sig_target, first);
	actions_left[lt->idx] = 10 + rng_n(&lt->rng, 40);
}

static void scn_ctl(struct loopthr *lt, char cmd)
{
	int i;
	if (cmd != 'T')
		return;
	for (i = 0; i < MAXRAW; i++)
		if (atomic_load(&rw[i].state) == 1 && rw[i].owner == lt->idx)
			slot_unregister(lt, i);
}

static void scn_after_main(struct loopthr *lt)
{
	if (!lt->torn)
		mon_viol("C07", "main-returned-early", g_method, "iv_main of loop %d returned before tear-down", lt->idx);
}

static int scn_next_phase(void) { return 0; }

void hk_idle(void)
{
	int i;
	if (atomic_load(&mt_phase))
		return;
	for (i = 0; i < MAXRAW; i++)
		if (atomic_load(&rw[i].state) == 1 && rw[i].last_post_seq > rw[i].last_entry_seq)
			mon_viol("C09", "blocked-with-undelivered-post", g_method,
				 "every thread is blocked (only an unrelated deadline could wake the owner) and raw event %d of loop %d has a post without a later handler run (posts %ld, runs %ld)",
				 i, rw[i].owner, (long)rw[i].posts, (long)rw[i].entries);
}

static void scn_quiescent_check(void)
{
	int i;
	for (i = 0; i < MAXRAW; i++) {
		if (atomic_load(&rw[i].state) != 1)
			continue;
		if (rw[i].posts > 0)
			S.obligations++;
		if (rw[i].last_post_seq > rw[i].last_entry_seq)
			mon_viol("C09", "lost-post", g_method,
				 "every thread is blocked and raw event %d of loop %d has a post without a later handler run (posts %ld, handler entries %ld)",
				 i, rw[i].owner, (long)rw[i].posts, (long)rw[i].entries);
		else if (rw[i].posts > 0)
			S.discharged++;
	}
}

static void scn_dead_end(void)
{
	mon_viol("C07", "hang-after-teardown", g_method, "tear-down was requested but a loop thread stays blocked for ever");
	mon_viol("C09", "hang-after-teardown", g_method, "tear-down was requested but a loop thread stays blocked for ever");
}

struct poster { pthread_t th; int idx; struct rng rng; int nposts; int burst; };

static void *poster_main(void *v)
{
	struct poster *p = v;
	int n = p->nposts, guard = 0;

	if (p->burst) {
		/* a burst larger than a pipe buffer, to one object */
		int tries;
		for (tries = 0; tries < 64; tries++) {
			int i = rng_n(&p->rng, MAXRAW);
			if (slot_post(i, 70000, &burst_posts))
				break;
		}
	}
	while (n > 0 && guard++ < 20000) {
		int i = rng_n(&p->rng, MAXRAW);
		if (rng_pct(&p->rng, 15)) {
			pthread_kill(main_thread, SIGUSR1);	/* the post happens in the signal handler, in the main thread */
			n--;
		} else if (slot_post(i, 1, &thread_posts)) {
			n--;
		}
		if (rng_pct(&p->rng, 10))
			sched_yield();
	}
	return NULL;
}

static void run_case(long id, uint64_t seed)
{
	struct rng r;
	struct poster posters[6];
	int i, nl, np, do_child;
	uint64_t cs;

	mon_case_id = id;
	mon_viol_case = 0;
	mon_watchdog(90);
	cs = mix64(seed ^ (uint64_t)id * 0x9E3779B97F4A7C15ULL);
	rng_seed(&r, seed, (uint64_t)id);
	vt_reset_case(cs);
	vt_set_single(0);
	memset(rw, 0, sizeof(rw));
	memset((void *)is_raw_wfd, 0, sizeof(is_raw_wfd));
	atomic_store(&ilv_hash, 0x99);
	atomic_store(&total_posts, 0); atomic_store(&total_entries, 0); atomic_store(&sig_posts, 0);
	atomic_store(&thread_posts, 0); atomic_store(&owner_posts, 0); atomic_store(&child_posts, 0);
	atomic_store(&burst_posts, 0); atomic_store(&sig_target, -1);

	nl = 1 + rng_n(&r, 2);
	np = rng_n(&r, 5);
	do_child = rng_pct(&r, 35);
	mt_start_loops(nl, cs);
	for (i = 0; i < np; i++) {
		posters[i].idx = i;
		posters[i].nposts = 2 + rng_n(&r, 40);
		posters[i].burst = g_burst && bursts_done < 3 && rng_pct(&r, 6);
		if (posters[i].burst)
			bursts_done++;
		if (posters[i].burst)
			S.bursts++;
		rng_seed(&posters[i].rng, cs, 5000 + i);
		pthread_create(&posters[i].th, NULL, poster_main, &posters[i]);
	}
	if (np == 0)
		for (i = 0; i < MAXRAW; i++)
			slot_post(i, 1, &thread_posts);
	if (do_child) {
		/* a forked child inherits the descriptors and posts; the objects it posts to must stay registered meanwhile */
		int tgt = atomic_load(&sig_target), nposts = 1 + rng_n(&r, 5);
		if (tgt >= 0 && atomic_load(&rw[tgt].state) == 1) {
			uint64_t s;
			atomic_fetch_add(&rw[tgt].inflight, 1);	/* keep it registered until the child was reaped */
			vt_ext_add(1);
			s = seq_next();
			if (__real_pipe(ch_ann) < 0 || __real_pipe(ch_ack) < 0)
				_exit(2);
			fcntl(ch_ann[0], F_SETFL, O_NONBLOCK);
			atomic_store(&ch_announced, 0); atomic_store(&ch_made, 0); atomic_store(&ch_acked, 0); atomic_store(&ch_target, tgt);
			ch_stuck_since = 0;
			atomic_store(&child_alive, 1);	/* (before the fork: the handler may run for the child's first post at once) */
			child_pid = fork();
			if (child_pid == 0) {
				int k;
				char b;
				for (k = 0; k < nposts; k++) {
					/* announce, post, and wait until the parent says that a handler run has followed */
					if (write(ch_ann[1], "p", 1) != 1)
						_exit(0);
					iv_event_raw_post(rw[tgt].e);
					if (write(ch_ann[1], "d", 1) != 1)
						_exit(0);
					while (read(ch_ack[0], &b, 1) < 0 && errno == EINTR)
						;
				}
				_exit(0);
			}
			if (child_pid < 0) {
				atomic_store(&child_alive, 0);
				__real_close(ch_ann[0]); __real_close(ch_ann[1]); __real_close(ch_ack[0]); __real_close(ch_ack[1]);
				ch_ann[0] = ch_ann[1] = ch_ack[0] = ch_ack[1] = -1;
				vt_ext_add(-1);
				atomic_fetch_sub(&rw[tgt].inflight, 1);
			} else {
				uint64_t old = atomic_load(&rw[tgt].last_post_seq);
				atomic_fetch_add(&rw[tgt].posts, nposts);
				atomic_fetch_add(&total_posts, nposts);
				atomic_fetch_add(&child_posts, nposts);
				while (old < s && !atomic_compare_exchange_weak(&rw[tgt].last_post_seq, &old, s))
					;
				atomic_store(&child_alive, 1);
				S.children++;
				/* the posting threads are joined first (a thread that has exited keeps its place in the shim's running account until it
				 * is joined: no quiescence - and no look at a stuck child - could be reached while this thread waits for the child) */
				for (i = 0; i < np; i++)
					pthread_join(posters[i].th, NULL);
				np = 0;
				/* wait for the child here (the owner cannot tear the object down before) */
				vt_block_begin();
				{
					int st;
					while (__real_wait4(child_pid, &st, 0, NULL) < 0 && errno == EINTR)
						;
				}
				vt_block_end();
				atomic_store(&child_alive, 0);
				atomic_store(&ch_target, -1);
				__real_close(ch_ann[0]); __real_close(ch_ann[1]); __real_close(ch_ack[0]); __real_close(ch_ack[1]);
				ch_ann[0] = ch_ann[1] = ch_ack[0] = ch_ack[1] = -1;
				vt_ext_add(-1);
				atomic_fetch_sub(&rw[tgt].inflight, 1);
			}
		}
	}
	for (i = 0; i < np; i++)
		pthread_join(posters[i].th, NULL);
	mt_join_loops();
	mt_check_thread_fds(g_method);

	S.cases++;
	S.posts += total_posts; S.entries += total_entries; S.sig_posts += sig_posts; S.thread_posts += thread_posts;
	S.owner_posts += owner_posts; S.child_posts += child_posts; S.burst_posts += burst_posts;
	mon_printf("CASE id=%ld trace=%016llx nt=%d loops=%d posters=%d posts=%ld entries=%ld viol=%d\n", id,
		   (unsigned long long)atomic_load(&ilv_hash), total_posts > 0, nl, np, (long)total_posts, (long)total_entries, mon_viol_case);
	if (id % 61 == 0)
		mon_printf("SAMPLE case=%ld method=%s loops=%d posting_threads=%d posts=%ld (threads %ld, signal handler %ld, owner/handler %ld, forked child %ld, bursts %ld) handler_entries=%ld\n",
			   id, g_method, nl, np, (long)total_posts, (long)thread_posts, (long)sig_posts, (long)owner_posts, (long)child_posts, (long)burst_posts, (long)total_entries);
}

int main(int argc, char **argv)
{
	long first = arg_ll(argc, argv, "--first", 0), n = arg_ll(argc, argv, "--cases", 50), i;
	uint64_t seed = (uint64_t)arg_ll(argc, argv, "--seed", 1);
	struct sigaction sa;

	g_prop = "C09";
	g_burst = (int)arg_ll(argc, argv, "--burst", 1);
	vt_init();
	vt_set_perturb((int)arg_ll(argc, argv, "--perturb", 1));
	iv_set_fatal_msg_handler(mt_fatal);
	signal(SIGPIPE, SIG_IGN);
	main_thread = pthread_self();
	memset(&sa, 0, sizeof(sa));
	sa.sa_handler = usr1_handler;
	sa.sa_flags = SA_RESTART;
	sigaction(SIGUSR1, &sa, NULL);
	mt_learn_method();
	for (i = first; i < first + n; i++)
		run_case(i, seed);
	mon_printf("STAT method=%s cases=%llu posts=%llu handler_entries=%llu posts_from_threads=%llu posts_from_signal_handler=%llu posts_from_owner=%llu "
		   "posts_from_forked_child=%llu burst_posts=%llu bursts=%llu children=%llu obligations=%llu discharged=%llu nonblocking_writes_checked=%llu "
		   "eagain_writes=%llu failed_registers_under_fault=%llu bursts_from_handler=%llu child_posts_acknowledged=%ld quit_and_reenter=%llu priority_deferrals=%llu shim_quiescences=%llu sig_deliveries=%llu injected=%llu violations=%d\n",
		   g_method, (unsigned long long)S.cases, (unsigned long long)S.posts, (unsigned long long)S.entries,
		   (unsigned long long)S.thread_posts, (unsigned long long)S.sig_posts, (unsigned long long)S.owner_posts,
		   (unsigned long long)S.child_posts, (unsigned long long)S.burst_posts, (unsigned long long)S.bursts,
		   (unsigned long long)S.children, (unsigned long long)S.obligations, (unsigned long long)S.discharged,
		   (unsigned long long)blocking_checked, (unsigned long long)eagain_writes, (unsigned long long)failed_registers, (unsigned long long)handler_bursts, (long)child_posts_acked, (unsigned long long)quit_reenters,
		   (unsigned long long)vt_stats.pct_deferrals, (unsigned long long)vt_stats.quiescences, (unsigned long long)vt_stats.sig_deliveries,
		   (unsigned long long)vt_stats.injected, mon_viol_total);
	mon_printf("DONE\n");
	return 0;
}
