/*
 * avl.c - C16: the AVL tree stays a correct balanced ordered set under any history.
 *
 * Part 1 (exhaustive): every AVL shape of height <= H (default 5) is built directly
 * (links + heights written into nodes, keys 2,4,6,...), and on a fresh copy of it the
 * library's iv_avl_tree_insert is applied for every gap (odd keys) and for every key
 * already present (duplicate), and iv_avl_tree_delete for every node.  After every
 * operation the whole tree is walked and compared with the reference sorted set.
 * Part 2: long random mixed histories with duplicates.
 *
 *   avl --part exhaustive --height 5 --slice k --slices n
 *   avl --part random --seed s --ops n --maxkeys m
 */
#ifndef _GNU_SOURCE
#define _GNU_SOURCE
#endif
#include <stdio.h>
#include <stdlib.h>
#include <string.h>
#include <iv_avl.h>
#include <iv_list.h>
#include <signal.h>
#include <unistd.h>
#include "mon.h"

long __real_write(int fd, const void *buf, size_t n) { return write(fd, buf, n); }
int __real_sigaction(int s, const struct sigaction *a, struct sigaction *o) { return sigaction(s, a, o); }

struct node {
	struct iv_avl_node	an;
	int			key;
	int			present;
};

static unsigned long cmp_calls;
static int compare(const struct iv_avl_node *_a, const struct iv_avl_node *_b)
{
	const struct node *a = iv_container_of(_a, struct node, an);
	const struct node *b = iv_container_of(_b, struct node, an);
	cmp_calls++;
	/* only the sign of a comparator's result means anything: the style rotates with the number of calls made so far */
	switch (cmp_calls % 3) {
	case 0:
		return a->key < b->key ? -1 : a->key > b->key;
	case 1:
		return a->key - b->key;				/* the subtraction idiom */
	default:
		return (a->key < b->key ? -1 : a->key > b->key) * 1000003;
	}
}

/* ---- shapes ---------------------------------------------------------- */
struct shape { int l, r; };	/* indices into shapes[h-1] / shapes[h-2] lists; hl, hr kept in kind */
struct shapelist { struct shape *s; unsigned char *kind; long n; };	/* kind: 0 = (h-1,h-1), 1 = (h-1,h-2), 2 = (h-2,h-1) */
static struct shapelist SL[8];

static void gen_shapes(int H)
{
	int h;
	SL[0].n = 1;	/* empty */
	SL[1].n = 1;	/* single node */
	for (h = 2; h <= H; h++) {
		long a = SL[h - 1].n, b = SL[h - 2].n, n = a * a + 2 * a * b, i = 0, x, y;
		SL[h].s = malloc(n * sizeof(struct shape));
		SL[h].kind = malloc(n);
		for (x = 0; x < a; x++)
			for (y = 0; y < a; y++) { SL[h].s[i].l = x; SL[h].s[i].r = y; SL[h].kind[i++] = 0; }
		for (x = 0; x < a; x++)
			for (y = 0; y < b; y++) { SL[h].s[i].l = x; SL[h].s[i].r = y; SL[h].kind[i++] = 1; }
		for (x = 0; x < b; x++)
			for (y = 0; y < a; y++) { SL[h].s[i].l = x; SL[h].s[i].r = y; SL[h].kind[i++] = 2; }
		SL[h].n = n;
	}
}

#define MAXN 256
static struct node pool[MAXN + 1];
static int npool;

/* builds shape (h, idx) into pool, in-order numbering; returns root */
static struct iv_avl_node *build(int h, long idx, struct iv_avl_node *parent)
{
	struct node *n;
	int hl, hr;
	struct iv_avl_node *l;

	if (h == 0)
		return NULL;
	if (h == 1) {
		n = &pool[npool++];
		n->an.left = n->an.right = NULL;
		n->an.parent = parent;
		n->an.height = 1;
		n->present = 1;
		return &n->an;
	}
	switch (SL[h].kind[idx]) {
	case 0: hl = h - 1; hr = h - 1; break;
	case 1: hl = h - 1; hr = h - 2; break;
	default: hl = h - 2; hr = h - 1; break;
	}
	l = build(hl, SL[h].s[idx].l, NULL);
	n = &pool[npool++];
	n->an.left = l;
	if (l)
		l->parent = &n->an;
	n->an.parent = parent;
	n->an.height = h;
	n->present = 1;
	n->an.right = build(hr, SL[h].s[idx].r, &n->an);
	return &n->an;
}

/* ---- validation --------------------------------------------------------- */
static long checks_done, nodes_walked;
static const char *fail;

static int walk(struct iv_avl_node *an, struct iv_avl_node *parent, int *count, int lo, int hi)
{
	struct node *n;
	int hl, hr, h;

	if (an == NULL)
		return 0;
	n = iv_container_of(an, struct node, an);
	nodes_walked++;
	if (an->parent != parent) { fail = "parent link inconsistent"; return -1; }
	if (n->key <= lo || n->key >= hi) { fail = "search-tree order broken"; return -1; }
	if (!n->present) { fail = "node in tree that is not in the reference set"; return -1; }
	(*count)++;
	hl = walk(an->left, an, count, lo, n->key);
	if (hl < 0) return -1;
	hr = walk(an->right, an, count, n->key, hi);
	if (hr < 0) return -1;
	h = 1 + (hl > hr ? hl : hr);
	if (an->height != h) { fail = "stored height not exact"; return -1; }
	if (hl - hr > 1 || hr - hl > 1) { fail = "not height-balanced"; return -1; }
	return h;
}

/* keys[]: expected sorted keys */
static int validate(struct iv_avl_tree *t, const int *keys, int nkeys)
{
	int count = 0, i;
	struct iv_avl_node *an;

	checks_done++;
	fail = NULL;
	if (walk(t->root, NULL, &count, -1000000000, 1000000000) < 0)
		return -1;
	if (count != nkeys) { fail = "node count differs from reference set"; return -1; }
	i = 0;
	for (an = iv_avl_tree_min(t); an != NULL; an = iv_avl_tree_next(an)) {
		if (i >= nkeys || iv_container_of(an, struct node, an)->key != keys[i]) { fail = "forward traversal differs from reference order"; return -1; }
		i++;
	}
	if (i != nkeys) { fail = "forward traversal too short"; return -1; }
	i = nkeys - 1;
	for (an = iv_avl_tree_max(t); an != NULL; an = iv_avl_tree_prev(an)) {
		if (i < 0 || iv_container_of(an, struct node, an)->key != keys[i]) { fail = "backward traversal differs from reference order"; return -1; }
		i--;
	}
	if (i != -1) { fail = "backward traversal too short"; return -1; }
	if (nkeys == 0 && (!iv_avl_tree_empty(t) || iv_avl_tree_min(t) || iv_avl_tree_max(t))) { fail = "empty tree not empty"; return -1; }
	return 0;
}

static uint64_t struct_hash(struct iv_avl_node *an)
{
	struct node *n;
	if (an == NULL)
		return 0x9e37;
	n = iv_container_of(an, struct node, an);
	return hash_step(hash_step(hash_step(struct_hash(an->left), n->key), an->height), struct_hash(an->right));
}

static void describe(struct iv_avl_node *an, char *buf, int *len, int max)
{
	if (*len > max - 32)
		return;
	if (an == NULL) { buf[(*len)++] = '.'; buf[*len] = 0; return; }
	*len += sprintf(buf + *len, "(");
	describe(an->left, buf, len, max);
	*len += sprintf(buf + *len, "%d", iv_container_of(an, struct node, an)->key);
	describe(an->right, buf, len, max);
	*len += sprintf(buf + *len, ")");
}

static long n_ops, n_rot, n_shapes, n_viol;
static const unsigned char fills[4] = { 0x01, 0x5a, 0x00, 0xff };
static uint64_t distinct_nt;
static int samples_left = 3;

static void report(const char *op, int key, int h, long idx, const char *before)
{
	char key_s[64];
	n_viol++;
	snprintf(key_s, sizeof(key_s), "%s", op);
	mon_viol("C16", "avl-invariant", key_s, "after %s(%d) on shape h=%d #%ld %s : %s", op, key, h, idx, before, fail ? fail : "?");
}

static struct rng SR;
/* random AVL shape of height h built into pool */
static struct iv_avl_node *build_random(int h, struct iv_avl_node *parent)
{
	struct node *n;
	int hl, hr;
	struct iv_avl_node *l;

	if (h == 0)
		return NULL;
	switch (h == 1 ? 0 : rng_n(&SR, 3)) {
	case 0: hl = h - 1; hr = h - 1; break;
	case 1: hl = h - 1; hr = h - 2; break;
	default: hl = h - 2; hr = h - 1; break;
	}
	l = build_random(hl, NULL);
	n = &pool[npool++];
	n->an.left = l;
	if (l)
		l->parent = &n->an;
	n->an.parent = parent;
	n->an.height = h;
	n->present = 1;
	n->an.right = build_random(hr, &n->an);
	return &n->an;
}

static void exhaustive(int H, long slice, long slices, long nsampled)
{
	int h;
	long idx;
	struct node saved[MAXN + 1];
	struct iv_avl_tree tree;
	char before[4096];

	if (!nsampled)
		gen_shapes(H);
	for (h = nsampled ? H : 0; h <= H; h++) {
		for (idx = 0; idx < (nsampled ? nsampled : SL[h].n); idx++) {
			int n, i, op, nops, keys[MAXN + 2];
			struct iv_avl_node *root;

			if (!nsampled && (idx % slices) != slice)
				continue;
			npool = 0;
			root = nsampled ? build_random(h, NULL) : build(h, idx, NULL);
			n = npool;
			for (i = 0; i < n; i++)
				pool[i].key = 2 * (i + 1);
			memcpy(saved, pool, sizeof(struct node) * n);
			n_shapes++;
			{
				int len = 0;
				before[0] = 0;
				describe(root, before, &len, sizeof(before));
			}
			/* the constructed tree itself must be valid (checks the checker and the builder) */
			INIT_IV_AVL_TREE(&tree, compare);
			tree.root = root;
			for (i = 0; i < n; i++)
				keys[i] = 2 * (i + 1);
			if (validate(&tree, keys, n) < 0) {
				mon_printf("NOTE harness: constructed shape invalid: %s (%s)\n", before, fail);
				_exit(2);
			}
			nops = (n + 1) + n + n + n;	/* inserts into every gap, duplicate inserts, deletions, re-insertion of every node that is in the tree */
			for (op = 0; op < nops; op++) {
				int ret, key, nk = 0, parents_changed = 0;
				struct node *extra = &pool[n];
				uint64_t hb;
				struct iv_avl_node *oldparent[MAXN + 1];

				memcpy(pool, saved, sizeof(struct node) * n);
				tree.root = root;	/* root pointer value is stable: same pool slot */
				for (i = 0; i < n; i++)
					oldparent[i] = pool[i].an.parent;
				n_ops++;
				if (op <= n) {			/* insert into gap */
					key = 2 * op + 1;
					extra->key = key;
					extra->present = 1;
					memset(&extra->an, fills[(op + idx) % 4], sizeof(extra->an));	/* whatever the node memory held before must not matter */
					ret = iv_avl_tree_insert(&tree, &extra->an);
					for (i = 0; i < n; i++) {
						if (2 * (i + 1) > key && nk == i) keys[nk++] = key;
						keys[nk++] = 2 * (i + 1);
					}
					if (nk == n) keys[nk++] = key;
					if (ret != 0) { fail = "insert of a new key failed"; report("insert", key, h, idx, before); continue; }
					if (validate(&tree, keys, nk) < 0) report("insert", key, h, idx, before);
				} else if (op <= 2 * n) {	/* duplicate insert */
					key = 2 * (op - n);
					extra->key = key;
					extra->present = 0;
					memset(&extra->an, fills[(op + idx) % 4], sizeof(extra->an));	/* whatever the node memory held before must not matter */
					hb = struct_hash(tree.root);
					ret = iv_avl_tree_insert(&tree, &extra->an);
					for (i = 0; i < n; i++) keys[nk++] = 2 * (i + 1);
					if (ret == 0) { fail = "insert of a duplicate key succeeded"; report("dup-insert", key, h, idx, before); continue; }
					if (struct_hash(tree.root) != hb) { fail = "failed duplicate insert changed the tree"; report("dup-insert", key, h, idx, before); continue; }
					if (validate(&tree, keys, nk) < 0) report("dup-insert", key, h, idx, before);
					{	/* "changes nothing": the rejected node is handed back as it was */
						unsigned char *b = (unsigned char *)&extra->an;
						size_t z;
						for (z = 0; z < sizeof(extra->an); z++)
							if (b[z] != (unsigned char)fills[(op + idx) % 4]) {
								fail = "failed duplicate insert wrote to the rejected node";
								report("dup-insert", key, h, idx, before);
								break;
							}
					}
				} else if (op > 3 * n) {	/* the node that is in the tree is offered again: rejected, nothing changes */
					int v = op - 3 * n - 1;
					key = 2 * (v + 1);
					hb = struct_hash(tree.root);
					ret = iv_avl_tree_insert(&tree, &pool[v].an);
					for (i = 0; i < n; i++) keys[nk++] = 2 * (i + 1);
					if (ret == 0) { fail = "re-insertion of a node that is in the tree succeeded"; report("re-insert", key, h, idx, before); continue; }
					if (struct_hash(tree.root) != hb) { fail = "rejected re-insertion of an in-tree node changed the tree"; report("re-insert", key, h, idx, before); continue; }
					if (validate(&tree, keys, nk) < 0) report("re-insert", key, h, idx, before);
				} else {			/* delete */
					int v = op - 2 * n - 1;
					key = 2 * (v + 1);
					pool[v].present = 0;
					iv_avl_tree_delete(&tree, &pool[v].an);
					for (i = 0; i < n; i++) if (i != v) keys[nk++] = 2 * (i + 1);
					if (validate(&tree, keys, nk) < 0) report("delete", key, h, idx, before);
				}
				for (i = 0; i < n; i++)
					if (pool[i].present && pool[i].an.parent != oldparent[i])
						parents_changed++;
				if (parents_changed >= 2) {
					n_rot++;
					distinct_nt++;	/* every (shape, operation) pair is distinct by construction */
				}
				if (samples_left > 0 && h == H && parents_changed >= 2 && (idx % 9973) == 17) {
					char after[4096];
					int len = 0;
					after[0] = 0;
					describe(tree.root, after, &len, sizeof(after));
					samples_left--;
					mon_printf("SAMPLE %s(%d) on %s -> %s\n", op <= n ? "insert" : op <= 2 * n ? "dup-insert" : op <= 3 * n ? "delete" : "re-insert", key, before, after);
				}
			}
		}
	}
}

/* ---- random histories ------------------------------------------------------- */
static int icmp(const void *a, const void *b) { return *(const int *)a - *(const int *)b; }

static void random_histories(uint64_t seed, long ops, int maxkeys)
{
	struct rng r;
	struct node *nodes = calloc(maxkeys, sizeof(struct node));
	struct node dup;
	struct iv_avl_tree tree;
	int *keys = malloc(sizeof(int) * maxkeys), nkeys = 0, i;
	long k;
	char ks[64];

	rng_seed(&r, seed, 77);
	INIT_IV_AVL_TREE(&tree, compare);
	for (i = 0; i < maxkeys; i++)
		nodes[i].key = i;
	for (k = 0; k < ops; k++) {
		int key = rng_n(&r, maxkeys), full;
		/* phases: grow, shrink, churn */
		int phase = (int)((k * 6) / ops);
		int want_insert = (phase % 2 == 0) ? rng_pct(&r, 70) : rng_pct(&r, 30);
		n_ops++;
		if (want_insert) {
			if (nodes[key].present) {
				uint64_t hb = nkeys <= 256 ? struct_hash(tree.root) : 0;
				int self = rng_pct(&r, 30);	/* offer the very node that is in the tree, or another node with an equal key */
				struct iv_avl_node snap;
				dup.key = key;
				dup.present = 0;
				memset(&dup.an, fills[k & 3], sizeof(dup.an));
				snap = dup.an;
				if (iv_avl_tree_insert(&tree, self ? &nodes[key].an : &dup.an) == 0) {
					fail = "insert of a duplicate key succeeded";
					mon_viol("C16", "avl-invariant", "dup-insert", "random history step %ld: %s", k, fail);
					break;
				}
				if (nkeys <= 256 && struct_hash(tree.root) != hb) {
					mon_viol("C16", "avl-invariant", "dup-insert", "random history step %ld: failed duplicate insert changed the tree", k);
					break;
				}
				if (!self && memcmp(&snap, &dup.an, sizeof(snap))) {
					mon_viol("C16", "avl-invariant", "dup-insert", "random history step %ld: failed duplicate insert wrote to the rejected node", k);
					break;
				}
			} else {
				nodes[key].present = 1;
				if (iv_avl_tree_insert(&tree, &nodes[key].an) != 0) {
					mon_viol("C16", "avl-invariant", "insert", "random history step %ld: insert of new key %d failed", k, key);
					break;
				}
				nkeys++;
				n_rot++;
			}
		} else if (nodes[key].present) {
			nodes[key].present = 0;
			iv_avl_tree_delete(&tree, &nodes[key].an);
			/* a deleted node keeps its stale links and height (re-inserting recycled nodes is normal use), or is overwritten */
			if (seed & 1)
				memset(&nodes[key].an, fills[rng_n(&r, 4)], sizeof(nodes[key].an));
			nkeys--;
			n_rot++;
		}
		full = nkeys <= 64 || (k % 509) == 0 || k == ops - 1;
		if (full) {
			int m = 0;
			for (i = 0; i < maxkeys; i++)
				if (nodes[i].present)
					keys[m++] = i;
			qsort(keys, m, sizeof(int), icmp);
			if (validate(&tree, keys, m) < 0) {
				snprintf(ks, sizeof(ks), "random");
				mon_viol("C16", "avl-invariant", ks, "random history seed %llu step %ld (%d keys): %s", (unsigned long long)seed, k, m, fail);
				break;
			}
		}
	}
	distinct_nt += (uint64_t)n_rot;
	mon_printf("SAMPLE random history seed=%llu ops=%ld maxkeys=%d final_keys=%d\n", (unsigned long long)seed, ops, maxkeys, nkeys);
	free(nodes);
	free(keys);
}

int main(int argc, char **argv)
{
	const char *part = arg_str(argc, argv, "--part", "exhaustive");

	mon_case_id = 0;
	if (!strcmp(part, "exhaustive")) {
		int H = (int)arg_ll(argc, argv, "--height", 5);
		exhaustive(H, arg_ll(argc, argv, "--slice", 0), arg_ll(argc, argv, "--slices", 1), 0);
		mon_printf("STAT part_exhaustive=1 shapes=%ld evaluations=%ld distinct_nontrivial=%llu rotations=%ld full_walks=%ld nodes_walked=%ld compare_calls=%lu violations=%ld\n",
			   n_shapes, n_ops, (unsigned long long)distinct_nt, n_rot, checks_done, nodes_walked, cmp_calls, n_viol);
	} else if (!strcmp(part, "sampled")) {
		int H = (int)arg_ll(argc, argv, "--height", 6);
		rng_seed(&SR, (uint64_t)arg_ll(argc, argv, "--seed", 1), 4242);
		exhaustive(H, 0, 1, arg_ll(argc, argv, "--shapes", 1000));
		mon_printf("STAT part_sampled=1 shapes=%ld evaluations=%ld distinct_nontrivial=%llu rotations=%ld full_walks=%ld nodes_walked=%ld violations=%ld\n",
			   n_shapes, n_ops, (unsigned long long)distinct_nt, n_rot, checks_done, nodes_walked, n_viol);
	} else {
		random_histories((uint64_t)arg_ll(argc, argv, "--seed", 1), arg_ll(argc, argv, "--ops", 200000), (int)arg_ll(argc, argv, "--maxkeys", 2000));
		mon_printf("STAT part_random=1 evaluations=%ld distinct_nontrivial=%llu full_walks=%ld nodes_walked=%ld violations=%d\n",
			   n_ops, (unsigned long long)distinct_nt, checks_done, nodes_walked, mon_viol_total);
	}
	mon_printf("DONE\n");
	return 0;
}
