/*
 * hyg.c - C18: after a thread's loop is deinitialised, or a thread that used the library exits,
 * everything acquired for that thread has been released: repeated init / use / deinit cycles and
 * thread churn do not grow the process (descriptors, threads, heap), the per-module tear-down hooks
 * run once per init, and descriptors handed to the library are non-blocking and close-on-exec.
 *
 * A cycle = one mixed use of the library (descriptors with and without handlers, timers up to two /
 * three radix levels, tasks, events, raw events, signal interests, a pump with cached buffers, a work
 * pool, inotify) between iv_init and iv_deinit - in the main thread, in a thread that calls iv_deinit,
 * or in a thread that just exits (thread-exit destructor).  See DESIGN.md 3 C18.
 */
#ifndef _GNU_SOURCE
#define _GNU_SOURCE
#endif
#include <dirent.h>
#include <time.h>
#include <stdatomic.h>
#include <errno.h>
#include <fcntl.h>
#include <pthread.h>
#include <signal.h>
#include <stdio.h>
#include <stdlib.h>
#include <string.h>
#include <unistd.h>
#include <sys/socket.h>
#include <iv.h>
#include <iv_event.h>
#include <iv_event_raw.h>
#include <iv_fd_pump.h>
#include <iv_inotify.h>
#include <iv_signal.h>
#include <iv_tls.h>
#include <iv_work.h>
#include "vt.h"
#include "mon.h"

size_t __sanitizer_get_current_allocated_bytes(void) __attribute__((weak));

static const char *g_method = "?";
static __thread void *hyg_leftover;
static _Atomic long tls_inits, tls_deinits;

/* a module of our own: the library must call its per-thread hooks once per init / tear-down */
static void my_tls_init(void *p) { memset(p, 0x42, 64); atomic_fetch_add(&tls_inits, 1); }
static void my_tls_deinit(void *p) { (void)p; atomic_fetch_add(&tls_deinits, 1); }
static struct iv_tls_user my_tls = { .sizeof_state = 64, .init_thread = my_tls_init, .deinit_thread = my_tls_deinit };
static void reg_tls(void) __attribute__((constructor));
static void reg_tls(void) { iv_tls_user_register(&my_tls); }

static int count_dir(const char *path)
{
	DIR *d = opendir(path);
	struct dirent *de;
	int n = 0;
	if (d == NULL)
		return -1;
	while ((de = readdir(d)) != NULL)
		if (de->d_name[0] != '.')
			n++;
	closedir(d);
	return n;
}

static struct {
	uint64_t cycles, main_cycles, thread_deinit_cycles, thread_exit_cycles, fds_registered, write_ends_registered, flag_checks, timers_left_at_deinit, max_timers,
		 pumps, pool_items, hook_checks, growth_checks;
} S;

int start_fds = -1;
struct cyc { struct rng r; int style; int done_items; };

static void nop(void *c) { (void)c; }
static void quit_cb(void *c) { (void)c; iv_quit(); }
static void set_bands(void *c, int a, int b) { (void)c; (void)a; (void)b; }
static void w_work(void *c) { (void)c; }
static void w_done(void *c) { struct cyc *cy = c; cy->done_items++; }

static void check_flags(int fd)
{
	int fl = fcntl(fd, F_GETFL), fdfl = fcntl(fd, F_GETFD);
	S.flag_checks++;
	if (!(fl & O_NONBLOCK) || !(fdfl & FD_CLOEXEC))
		mon_viol("C18", "fd-flags", "register", "descriptor %d after registration: O_NONBLOCK=%d FD_CLOEXEC=%d", fd, !!(fl & O_NONBLOCK), !!(fdfl & FD_CLOEXEC));
}

/* one use of the library between init and deinit; deinit (or not) is the caller's business */
static void use_library(struct cyc *cy, int leave_timers)
{
	struct rng *r = &cy->r;
	int nfd = 1 + rng_n(r, 6), i, p[8][2], side;
	struct iv_fd *fds[8];
	struct iv_timer *tm, quit_t;
	int ntm = rng_pct(r, 15) ? 16390 + rng_n(r, 40) : rng_pct(r, 50) ? 120 + rng_n(r, 30) : rng_n(r, 40);
	struct iv_task tk;
	struct iv_event ev;
	struct iv_event_raw raw;
	struct iv_signal sg;
	struct iv_work_pool pool;
	struct iv_work_item items[6];
	struct iv_fd_pump pump;
	int pp[2][2], have_pump = rng_pct(r, 50), have_pool = rng_pct(r, 35);

	/* descriptors: with handlers, without any handler, handlers removed one by one */
	for (i = 0; i < nfd; i++) {
		if (rng_pct(r, 50)) { if (__real_pipe(p[i]) < 0) _exit(2); }
		else if (socketpair(AF_UNIX, SOCK_STREAM, 0, p[i]) < 0) _exit(2);
		fds[i] = malloc(sizeof(struct iv_fd));
		IV_FD_INIT(fds[i]);
		/* either end: the write end of a pipe is a write-only descriptor (access mode bits differ), a socket is read-write */
		side = rng_pct(r, 40);
		fds[i]->fd = p[i][side];
		fds[i]->cookie = cy;
		if (!side && rng_pct(r, 60)) fds[i]->handler_in = nop;
		if (rng_pct(r, 30)) fds[i]->handler_err = nop;
		if (side) S.write_ends_registered++;
		if (rng_pct(r, 50)) {
			iv_fd_register(fds[i]);
		} else {
			vt_in_register_try = 1;
			if (iv_fd_register_try(fds[i]) != 0) _exit(2);
			vt_in_register_try = 0;
		}
		check_flags(p[i][side]);
		S.fds_registered++;
	}
	for (i = 0; i < nfd; i++) {
		if (rng_pct(r, 40)) iv_fd_set_handler_in(fds[i], NULL);
		if (rng_pct(r, 40)) iv_fd_set_handler_err(fds[i], NULL);
		if (rng_pct(r, 30)) {
			/* (an output handler on a writable descriptor would keep the loop busy for ever: install and remove it again) */
			iv_fd_set_handler_out(fds[i], nop);
			iv_fd_set_handler_out(fds[i], NULL);
		}
	}
	/* timers: enough to grow the store by one or two levels */
	tm = calloc(ntm ? ntm : 1, sizeof(struct iv_timer));
	iv_validate_now();
	for (i = 0; i < ntm; i++) {
		IV_TIMER_INIT(&tm[i]);
		tm[i].expires = iv_now;
		tm[i].expires.tv_sec += 1000 + rng_n(r, 100000);
		tm[i].handler = nop;
		iv_timer_register(&tm[i]);
	}
	if ((uint64_t)ntm > S.max_timers) S.max_timers = ntm;
	IV_TASK_INIT(&tk); tk.handler = nop; iv_task_register(&tk);
	IV_EVENT_INIT(&ev); ev.handler = nop; iv_event_register(&ev); iv_event_post(&ev);
	IV_EVENT_RAW_INIT(&raw); raw.handler = nop; iv_event_raw_register(&raw); iv_event_raw_post(&raw);
	check_flags(raw.event_rfd.fd);
	IV_SIGNAL_INIT(&sg); sg.signum = SIGUSR1; sg.flags = rng_pct(r, 50) ? IV_SIGNAL_FLAG_THIS_THREAD : 0; sg.handler = nop; iv_signal_register(&sg);
	if (have_pump) {
		if (__real_pipe(pp[0]) < 0 || __real_pipe(pp[1]) < 0) _exit(2);
		fcntl(pp[0][0], F_SETFL, O_NONBLOCK); fcntl(pp[1][1], F_SETFL, O_NONBLOCK);
		IV_FD_PUMP_INIT(&pump);
		pump.from_fd = pp[0][0]; pump.to_fd = pp[1][1]; pump.cookie = cy; pump.set_bands = set_bands; pump.flags = 0;
		iv_fd_pump_init(&pump);
		if (__real_write(pp[0][1], "hello", 5) < 0) {}
		iv_fd_pump_pump(&pump);
		if (rng_pct(r, 50)) iv_fd_pump_pump(&pump);
		iv_fd_pump_destroy(&pump);		/* leaves a buffer in the per-thread cache: released by the module's tear-down hook */
		S.pumps++;
	}
	if (have_pool) {
		IV_WORK_POOL_INIT(&pool);
		pool.max_threads = 1 + rng_n(r, 3);
		pool.cookie = NULL;
		iv_work_pool_create(&pool);
		cy->done_items = 0;
		for (i = 0; i < 6; i++) {
			IV_WORK_ITEM_INIT(&items[i]);
			items[i].cookie = cy; items[i].work = w_work; items[i].completion = w_done;
			iv_work_pool_submit_work(&pool, &items[i]);
			S.pool_items++;
		}
		iv_work_pool_put(&pool);
	}
	/* run the loop for a moment of virtual time */
	IV_TIMER_INIT(&quit_t);
	quit_t.expires = iv_now;
	quit_t.expires.tv_nsec += 1000000;
	if (quit_t.expires.tv_nsec >= 1000000000) { quit_t.expires.tv_sec++; quit_t.expires.tv_nsec -= 1000000000; }
	quit_t.handler = have_pool ? nop : quit_cb;
	iv_timer_register(&quit_t);
	if (have_pool) {
		/* with a pool the loop must keep running until the workers are gone: unregister everything else and let iv_main return by itself */
		iv_signal_unregister(&sg);
		iv_event_raw_unregister(&raw);
		iv_event_unregister(&ev);
		for (i = 0; i < nfd; i++) { iv_fd_unregister(fds[i]); free(fds[i]); fds[i] = NULL; }
		for (i = 0; i < ntm; i++) iv_timer_unregister(&tm[i]);
		ntm = 0;
		iv_main();
		if (cy->done_items != 6)
			mon_viol("C13", "items-lost-at-shutdown", g_method, "iv_main returned after iv_work_pool_put with %d of 6 completions", cy->done_items);
	} else {
		iv_main();
		iv_signal_unregister(&sg);
		iv_event_raw_unregister(&raw);
		iv_event_unregister(&ev);
		for (i = 0; i < nfd; i++) { iv_fd_unregister(fds[i]); free(fds[i]); fds[i] = NULL; }
		if (iv_task_registered(&tk)) iv_task_unregister(&tk);
		if (!leave_timers) {
			/* remove them in an order that shrinks the store through interior removals */
			for (i = 0; i < ntm; i += 2) iv_timer_unregister(&tm[i]);
			for (i = 1; i < ntm; i += 2) iv_timer_unregister(&tm[i]);
		} else {
			S.timers_left_at_deinit += ntm;		/* the store's own memory must still be released by the tear-down */
		}
	}
	for (i = 0; i < nfd; i++) { __real_close(p[i][0]); __real_close(p[i][1]); }
	if (have_pump) { __real_close(pp[0][0]); __real_close(pp[0][1]); __real_close(pp[1][0]); __real_close(pp[1][1]); }
	/* timers that stay registered keep their memory until the library is gone: the thread body frees the array after the tear-down */
	if (leave_timers)
		hyg_leftover = tm;
	else
		free(tm);
}

struct targ { uint64_t seed; int style; long id; };

static void *thread_body(void *v)
{
	struct targ *ta = v;
	struct cyc cy;
	int leave = 0;

	memset(&cy, 0, sizeof(cy));
	rng_seed(&cy.r, ta->seed, (uint64_t)ta->id);
	cy.style = ta->style;
	leave = rng_pct(&cy.r, 25);
	hyg_leftover = NULL;
	iv_init();
	use_library(&cy, leave);
	if (ta->style == 1 || ta->style == 0)
		iv_deinit();
	/* style 2: no iv_deinit - the thread-exit destructor must release everything */
	if (ta->style != 2) {
		free(hyg_leftover);
		hyg_leftover = NULL;
	}
	/* (style 2 with timers left: the array is leaked on purpose into a list freed by the main thread) */
	return hyg_leftover;
}

static void run_cycle(long id, uint64_t seed)
{
	static int base_fd = -1, base_thr = -1, warm;
	extern int start_fds;
	static size_t base_heap;
	struct targ ta = { seed, (int)(id % 3), id };
	long i0 = tls_inits, d0 = tls_deinits;
	int nfd, nthr;
	void *left = NULL;

	mon_case_id = id;
	mon_viol_case = 0;
	mon_watchdog(60);
	vt_reset_case(mix64(seed ^ (uint64_t)id));
	vt_set_single(0);
	if (ta.style == 0) {
		left = thread_body(&ta);		/* in the main thread */
		S.main_cycles++;
	} else {
		pthread_t th;
		pthread_create(&th, NULL, thread_body, &ta);
		pthread_join(th, &left);
		if (ta.style == 1) S.thread_deinit_cycles++; else S.thread_exit_cycles++;
	}
	free(left);
	S.cycles++;
	/* per-module hooks: one init and one tear-down more than before (plus those of worker threads, which pair up as well) */
	S.hook_checks++;
	if (tls_inits - i0 != tls_deinits - d0)
		mon_viol("C18", "module-hooks-unpaired", g_method, "cycle %ld (style %d): %ld per-thread init hook calls but %ld tear-down hook calls",
			 id, ta.style, tls_inits - i0, tls_deinits - d0);
	nfd = count_dir("/proc/self/fd");
	nthr = count_dir("/proc/self/task");
	if (base_thr >= 0 && nthr > base_thr) {
		/* a joined thread can stay visible in /proc for a moment after pthread_join returned (the kernel releases the task
		 * after it cleared the join futex): look again for up to ten seconds before calling it a leak */
		int tries;
		for (tries = 0; tries < 2000 && nthr > base_thr; tries++) {
			struct timespec ts = { 0, 5000000 };
			nanosleep(&ts, NULL);
			nthr = count_dir("/proc/self/task");
		}
	}
	S.growth_checks++;
	if (warm < 4) {
		/* the first cycles set the base for the heap (lazily grown tables); descriptors have a stricter base: what was open before
		 * the library was used for the first time in this process (nothing the library opens may outlive a complete tear-down) */
		if (warm > 0 && nfd > base_fd)
			mon_viol("C18", "fd-leak", g_method, "cycle %ld (style %d, warm-up): %d descriptors open afterwards, %d after the first cycle", id, ta.style, nfd, base_fd);
		if (warm == 0 && start_fds >= 0 && nfd > start_fds)
			mon_viol("C18", "fd-leak", g_method, "first cycle of the process (style %d): %d descriptors open afterwards, %d before the library was used", ta.style, nfd, start_fds);
		warm++;
		base_fd = nfd; base_thr = nthr;
		base_heap = __sanitizer_get_current_allocated_bytes ? __sanitizer_get_current_allocated_bytes() : 0;
	} else {
		if (nfd > base_fd) {
			mon_viol("C18", "fd-leak", g_method, "cycle %ld (style %d: %s): %d descriptors open afterwards, %d after the earlier cycles", id, ta.style,
				 ta.style == 0 ? "main thread" : ta.style == 1 ? "thread with iv_deinit" : "thread exits without iv_deinit", nfd, base_fd);
			base_fd = nfd;
		}
		if (nthr > base_thr) {
			mon_viol("C18", "thread-leak", g_method, "cycle %ld: %d threads alive afterwards, %d before", id, nthr, base_thr);
			base_thr = nthr;
		}
		if (__sanitizer_get_current_allocated_bytes) {
			size_t h = __sanitizer_get_current_allocated_bytes();
			if (h > base_heap + 2048) {
				mon_viol("C18", "heap-growth", g_method, "cycle %ld (style %d): live heap %zu bytes afterwards, %zu after the earlier cycles", id, ta.style, h, base_heap);
				base_heap = h;
			} else if (h < base_heap) {
				base_heap = h;
			}
		}
	}
	mon_printf("CASE id=%ld trace=%016llx nt=1 style=%d viol=%d\n", id, (unsigned long long)mix64(seed * 7 + id), ta.style, mon_viol_case);
}

int main(int argc, char **argv)
{
	long first = arg_ll(argc, argv, "--first", 0), n = arg_ll(argc, argv, "--cases", 60), i;
	uint64_t seed = (uint64_t)arg_ll(argc, argv, "--seed", 1);

	vt_init();
	signal(SIGPIPE, SIG_IGN);
	start_fds = count_dir("/proc/self/fd");
	iv_init();
	g_method = iv_poll_method_name();
	iv_deinit();
	if (count_dir("/proc/self/fd") != start_fds)
		start_fds = -1;	/* (cannot happen; then there is no strict base) */
	for (i = first; i < first + n; i++)
		run_cycle(i, seed);
	mon_printf("STAT method=%s cycles=%llu main_thread_cycles=%llu thread_with_deinit_cycles=%llu thread_exit_without_deinit_cycles=%llu fds_registered=%llu "
		   "flag_checks=%llu write_only_descriptors_registered=%llu timers_left_registered_at_teardown=%llu max_timers=%llu pumps=%llu pool_items=%llu hook_checks=%llu growth_checks=%llu "
		   "module_init_hooks=%ld module_teardown_hooks=%ld violations=%d\n", g_method, (unsigned long long)S.cycles, (unsigned long long)S.main_cycles,
		   (unsigned long long)S.thread_deinit_cycles, (unsigned long long)S.thread_exit_cycles, (unsigned long long)S.fds_registered,
		   (unsigned long long)S.flag_checks, (unsigned long long)S.write_ends_registered, (unsigned long long)S.timers_left_at_deinit, (unsigned long long)S.max_timers, (unsigned long long)S.pumps,
		   (unsigned long long)S.pool_items, (unsigned long long)S.hook_checks, (unsigned long long)S.growth_checks, (long)tls_inits, (long)tls_deinits, mon_viol_total);
	mon_printf("DONE\n");
	return 0;
}
