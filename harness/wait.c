/*
 * wait.c - C11: child statuses reach the right interest once, in order; strangers are harmless;
 * the kill helper never signals a process whose termination was already reaped.
 *
 * Ground truth: every (pid, status) the library's wait4() returned, in order (shim), and every
 * kill() it issued.  Children are scripted over a command pipe so that the harness knows when an
 * external actor still has something to do (quiescence account).  See DESIGN.md 3 C11.
 */
#include <signal.h>
#include <fcntl.h>
#include <sys/wait.h>
#include <iv_wait.h>
#include <time.h>
#include "mt.h"

#define MAXC 48
enum { CK_SPAWN, CK_FORK_INTEREST, CK_STRANGER, CK_ANCHOR };
struct child {
	int		kind;
	_Atomic int	pid;
	int		cmd[2];			/* parent writes cmd[1], child reads cmd[0] */
	int		owner;			/* loop that holds the interest, -1 none */
	struct iv_wait_interest *wi;		/* malloc'ed, freed at unregister */
	_Atomic int	registered;
	_Atomic int	outstanding;		/* commands whose status change was not reaped yet */
	int		stuck_nhist;		/* length of the history at that time */
	int64_t		stuck_since;		/* real time at which a waiting, unannounced status was first seen with everything blocked */
	_Atomic int	dead_reaped;		/* terminating status returned by wait4 */
	_Atomic uint64_t dead_seq;
	_Atomic uint64_t reg_done_seq, unreg_seq;
	int		immediate;		/* exits at once, without waiting for a command */
	int		unreg_at;		/* unregister from the handler at the n-th delivery (0 = at the terminating one) */
	/* delivered statuses */
	int		dstat[32];
	int		ndel;
	_Atomic int	told_exit;
	int		wrong_thread;
	_Atomic int	auto_cont;		/* continue it as soon as its stop has been reaped: two status changes back to back */
	int		unreg_by_other;		/* another handler unregistered the interest */
	char		hist[64];
	_Atomic int	nhist;
	int		linger;			/* the interest stays registered for a while after the terminating status */
};
static struct child ch[MAXC];
static _Atomic int nch;
static __thread struct child *tl_spawning;

/* ground truth: what the library reaped */
#define MAXG 4096
static struct { int pid, status; uint64_t seq; } G[MAXG];
static _Atomic int ng;

static struct {
	uint64_t cases, children, spawned, forked_with_interest, strangers, statuses_reaped, statuses_delivered, stops, conts, exits, kills,
		 kill_helper_calls, kill_helper_dead, unreg_in_handler, immediate_exits, stranger_deaths, zombie_checks, unreg_other, batches, missed_statuses, interests_reused, kill_and_unregister;
} S;
static _Atomic long c_reaped, c_delivered, c_killcalls, c_killdead, c_stranger_deaths;

static void hist(struct child *c, char x)
{
	int i = atomic_fetch_add(&c->nhist, 1);
	if (i < 63)
		c->hist[i] = x;
}

static struct child *child_by_pid(int pid)
{
	int i, n = nch;
	for (i = 0; i < n; i++)
		if (ch[i].pid == pid)
			return &ch[i];
	return NULL;
}

/* see popen.c: the forking thread is held up right after fork() returned */
static void fork_window_delay(void)
{
	static __thread uint64_t x;
	struct timespec ts = { 0, 0 };
	if (x == 0)
		x = (uint64_t)(uintptr_t)&x | 1;
	x ^= x << 13; x ^= x >> 7; x ^= x << 17;
	if ((x >> 20) % 100 < 65)
		return;
	ts.tv_nsec = (x >> 30) % 100 < 85 ? 50000 + (long)((x >> 40) % 450000) : 4000000;
	nanosleep(&ts, NULL);
}

void hk_fork(pid_t pid)
{
	if (pid > 0 && tl_spawning != NULL) {
		tl_spawning->pid = pid;		/* (first of all: the reaper may see the pid during the delay) */
		fork_window_delay();
	}
	if (pid > 0 && tl_spawning != NULL)
		tl_spawning->pid = pid;		/* still inside the library's spawn call, before its lock is released */
}

/* gives up one outstanding action of the child, if there is one (the reaper and the stuck-status observer may race) */
static int take_outstanding(struct child *c)
{
	int v = atomic_load(&c->outstanding);
	while (v > 0)
		if (atomic_compare_exchange_weak(&c->outstanding, &v, v - 1))
			return 1;
	return 0;
}

void hk_wait4(pid_t arg, int options, pid_t ret, int status)
{
	struct child *c;
	int i;
	(void)arg; (void)options;
	if (ret <= 0)
		return;
	fork_window_delay();	/* the reaping pass is held up between two children now and then (it holds the library's lock) */
	i = atomic_fetch_add(&ng, 1);
	if (i < MAXG) {
		G[i].pid = ret;
		G[i].status = status;
		G[i].seq = seq_next();
	}
	atomic_fetch_add(&c_reaped, 1);
	c = child_by_pid(ret);
	if (c == NULL)
		return;
	hist(c, WIFEXITED(status) ? 'X' : WIFSIGNALED(status) ? 'K' : WIFSTOPPED(status) ? 'S' : WIFCONTINUED(status) ? 'C' : '?');
	if (WIFEXITED(status) || WIFSIGNALED(status)) {
		c->dead_seq = i < MAXG ? G[i].seq : seq_next();
		c->dead_reaped = 1;
		if (c->kind == CK_STRANGER)
			atomic_fetch_add(&c_stranger_deaths, 1);
	}
	if (WIFSTOPPED(status) && atomic_load(&c->outstanding) > 0 && atomic_exchange(&c->auto_cont, 0)) {
		/* continue it at once; the outstanding action is now "continued" (no window in which the child looks idle and stopped) */
		hist(c, 'a');
		if (__real_kill(ret, SIGCONT) < 0) {
			if (take_outstanding(c))
				vt_ext_add(-1);
		}
	} else if (take_outstanding(c)) {
		vt_ext_add(-1);
	}
	c->stuck_since = 0;
}

/*
 * Called by the shim when every thread is blocked, every loop thread has confirmed an empty poll at the current epoch,
 * and actions of children are still outstanding.  If such a child has a status change waiting to be collected (peeked with
 * WNOWAIT) and SIGCHLD is not pending, the kernel's part is over and the library has let it pass: nothing but an
 * unrelated SIGCHLD will make it look again.  The picture has to last 200 ms of real time (the kernel makes a stop
 * waitable a moment before it notifies the parent) before it is reported and the action is written off.
 */
void hk_ext_stuck(void)
{
	int i, n = nch;
	struct timespec ts;
	int64_t now;

	__real_clock_gettime(CLOCK_MONOTONIC, &ts);
	now = (int64_t)ts.tv_sec * 1000000000LL + ts.tv_nsec;
	for (i = 0; i < n; i++) {
		struct child *c = &ch[i];
		siginfo_t si;
		if (c->pid <= 0 || atomic_load(&c->outstanding) <= 0)
			continue;
		memset(&si, 0, sizeof(si));
		if (waitid(P_PID, (id_t)c->pid, &si, WNOHANG | WNOWAIT | WEXITED | WSTOPPED | WCONTINUED) != 0 || si.si_pid != c->pid || mt_sigchld_pending()) {
			c->stuck_since = 0;
			continue;
		}
		/* the clock runs for one particular status change: nothing may have happened to this child since the first look (two
		 * unrelated glimpses of a status on its way, some time apart, are not a status that has been waiting all that time) */
		if (c->stuck_since == 0 || c->stuck_nhist != atomic_load(&c->nhist)) {
			c->stuck_since = now;
			c->stuck_nhist = atomic_load(&c->nhist);
			continue;
		}
		if (now - c->stuck_since < 1000000000LL)
			continue;
		c->stuck_since = 0;
		hist(c, '!');
		S.missed_statuses++;
		mon_viol("C11", "status-change-missed", g_method,
			 "pid %d (%s) has a status change waiting (si_code %d, status %d), SIGCHLD is not pending and every thread is blocked: the library passed it over; history %s",
			 (int)c->pid, c->kind == CK_STRANGER ? "no interest" : c->kind == CK_SPAWN ? "spawned through the library" : c->kind == CK_ANCHOR ? "anchor" : "forked, then registered",
			 si.si_code, si.si_status, c->hist);
		while (take_outstanding(c))
			vt_ext_add(-1);
	}
}

/* the calling thread is held up for a moment just before the signal is sent (whatever the caller checked before may have changed by
 * then, unless it holds the lock that the reaper needs) */
void hk_kill_pre(pid_t pid, int sig)
{
	(void)pid; (void)sig;
	fork_window_delay();
}

void hk_kill(pid_t pid, int sig, int ret, int err)
{
	struct child *c = child_by_pid(pid);
	(void)ret; (void)err;
	if (c == NULL)
		return;
	/* called with the library's lock held, as the reaper is: the order against G is exact */
	if (c->dead_reaped)
		mon_viol("C11", "kill-after-reap", g_method, "the kill helper sent signal %d to pid %d although its termination had already been reaped", sig, (int)pid);
}

/* ---- the scripted child ------------------------------------------------------- */
static void child_script(struct child *c)
{
	char b;
	int i;
	/* keep only our own command pipe */
	for (i = 0; i < MAXC; i++)
		if (&ch[i] != c && ch[i].cmd[1] > 0)
			close(ch[i].cmd[1]);
	close(c->cmd[1]);
	if (c->immediate)
		_exit(3);
	for (;;) {
		long n = read(c->cmd[0], &b, 1);
		if (n == 0)
			_exit(0);
		if (n < 0)
			continue;
		switch (b) {
		case 'e': _exit(7);
		case 'k': raise(SIGKILL); break;
		case 't': signal(SIGTERM, SIG_DFL); raise(SIGTERM); break;
		case 's': raise(SIGSTOP); break;
		}
	}
}

static void spawn_fn(void *cookie) { child_script(cookie); }
static struct iv_wait_interest *recycled[MAXLOOP];	/* per loop: an interest object to be used again without INIT */

/* ---- interests -------------------------------------------------------------------- */
static void wait_cb(void *cookie, int status, const struct rusage *ru)
{
	struct child *c = cookie;
	struct loopthr *lt;
	int dead = WIFEXITED(status) || WIFSIGNALED(status);
	(void)ru;

	if (c < ch || c >= ch + MAXC || !c->registered || c->wi == NULL) {
		mon_viol("C01", "stale-handler", "wait", "wait interest handler invoked after the interest was unregistered");
		mon_viol("C11", "delivery-after-unregister", g_method, "a child status (0x%x) was delivered to an interest that had been unregistered", status);
		return;
	}
	lt = &loops[c->owner];
	if (!pthread_equal(pthread_self(), lt->th))
		mon_viol("C11", "wrong-thread", g_method, "status of pid %d delivered in another thread than the one that registered the interest", (int)c->pid);
	if (c->ndel < 32)
		c->dstat[c->ndel] = status;
	c->ndel++;
	atomic_fetch_add(&c_delivered, 1);
	ilv(lt->idx, 4, (unsigned)(c - ch));
	if (ru == NULL)
		mon_viol("C11", "no-rusage", g_method, "handler called without resource usage although wait4 is available");

	if (dead && c->linger == 0 && rng_pct(&lt->rng, 30)) {
		c->linger = 1;		/* unregistered later from the loop's program, after a kill-helper call */
		return;
	}
	if (c->linger) {
		mon_viol("C11", "status-after-termination", g_method, "pid %d: status 0x%x delivered after the terminating status", (int)c->pid, status);
		return;
	}
	if (dead || (c->unreg_at && c->ndel == c->unreg_at)) {
		if (!dead)
			S.unreg_in_handler++;
		c->unreg_seq = seq_next();
		iv_wait_interest_unregister(c->wi);
		c->registered = 0;
		if (dead && recycled[lt->idx] == NULL && !mt_phase && rng_pct(&lt->rng, 35)) {
			recycled[lt->idx] = c->wi;	/* kept untouched for the next child of this loop */
		} else {
			memset(c->wi, 0xDD, sizeof(*c->wi));
			free(c->wi);
		}
		c->wi = NULL;
		return;
	}
	if (rng_pct(&lt->rng, 20)) {
		struct timespec ts = { 0, 1000 * (1 + (long)rng_n(&lt->rng, 400)) };
		nanosleep(&ts, NULL);	/* a slow handler: further status changes queue up meanwhile */
	}
	if (rng_pct(&lt->rng, 15)) {
		/* unregister another interest of this thread from here (its child is then nobody's concern) */
		int j, n2 = nch;
		for (j = 0; j < n2; j++) {
			struct child *o = &ch[j];
			if (o != c && o->kind != CK_ANCHOR && o->registered && o->owner == lt->idx && o->wi != NULL && o->linger == 0) {
				o->unreg_seq = seq_next();
				o->unreg_by_other = 1;
				iv_wait_interest_unregister(o->wi);
				o->registered = 0;
				memset(o->wi, 0xDD, sizeof(*o->wi));
				free(o->wi);
				o->wi = NULL;
				S.unreg_other++;
				break;
			}
		}
	}
	/* kill helper on a living child (signal 0 probes only) */
	if (rng_pct(&lt->rng, 30)) {
		int r = iv_wait_interest_kill(c->wi, 0);
		atomic_fetch_add(&c_killcalls, 1);
		if (r < 0 && !c->dead_reaped && errno != ESRCH)
			mon_viol("C11", "kill-helper-failed", g_method, "iv_wait_interest_kill(pid %d, 0) failed (%d) although the child has not been reaped as dead", (int)c->pid, r);
	}
}

static struct child *child_new(int kind, int owner)
{
	int i = atomic_fetch_add(&nch, 1);
	struct child *c;
	if (i >= MAXC) {
		atomic_fetch_sub(&nch, 1);
		return NULL;
	}
	c = &ch[i];
	memset(c, 0, sizeof(*c));
	c->kind = kind;
	c->owner = owner;
	if (__real_pipe(c->cmd) < 0)
		_exit(2);
	fcntl(c->cmd[1], F_SETFD, FD_CLOEXEC);
	S.children++;
	return c;
}

static int is_stopped(struct child *c)
{
	int k;
	for (k = (ng < MAXG ? ng : MAXG) - 1; k >= 0; k--)
		if (G[k].pid == c->pid)
			return WIFSTOPPED(G[k].status);
	return 0;
}

static void tell(struct child *c, char cmd)
{
	if (c->pid <= 0 || c->told_exit || c->outstanding > 0 || is_stopped(c))
		return;		/* a stopped child cannot read its pipe */
	if (cmd == 'e' || cmd == 'k' || cmd == 't')
		c->told_exit = 1;
	hist(c, cmd);
	atomic_fetch_add(&c->outstanding, 1);
	vt_ext_add(1);
	if (__real_write(c->cmd[1], &cmd, 1) != 1) {
		atomic_fetch_sub(&c->outstanding, 1);
		vt_ext_add(-1);
	}
}

static void cont(struct child *c)
{
	hist(c, 'c');
	atomic_fetch_add(&c->outstanding, 1);
	vt_ext_add(1);
	if (__real_kill(c->pid, SIGCONT) < 0) {
		atomic_fetch_sub(&c->outstanding, 1);
		vt_ext_add(-1);
	}
}

/* owner thread: create a child with an interest */
static struct child *make_child(struct loopthr *lt, int kind)
{
	struct child *c = child_new(kind, kind == CK_STRANGER ? -1 : lt->idx);
	if (c == NULL)
		return NULL;
	c->immediate = (kind == CK_SPAWN) && rng_pct(&lt->rng, 30);
	c->unreg_at = (kind != CK_ANCHOR && rng_pct(&lt->rng, 25)) ? 1 + (int)rng_n(&lt->rng, 3) : 0;
	if (kind != CK_STRANGER) {
		if (recycled[lt->idx] != NULL) {
			/* an interest object whose previous child died and which was unregistered is used again as it is (no second INIT) */
			c->wi = recycled[lt->idx];
			recycled[lt->idx] = NULL;
			S.interests_reused++;
		} else {
			c->wi = malloc(sizeof(struct iv_wait_interest));
			memset(c->wi, 0xA5, sizeof(*c->wi));
			IV_WAIT_INTEREST_INIT(c->wi);
		}
		c->wi->cookie = c;
		c->wi->handler = wait_cb;
	}
	if (kind == CK_SPAWN || kind == CK_ANCHOR) {
		int r;
		if (c->immediate) {
			atomic_fetch_add(&c->outstanding, 1);
			vt_ext_add(1);
			c->told_exit = 1;
			S.immediate_exits++;
		}
		c->registered = 1;
		tl_spawning = c;
		r = iv_wait_interest_register_spawn(c->wi, spawn_fn, c);
		tl_spawning = NULL;
		if (r < 0) {
			mon_printf("NOTE harness: spawn failed\n");
			_exit(2);
		}
		c->reg_done_seq = seq_next();
		if (c->pid != c->wi->pid)
			mon_viol("C11", "pid-not-stored", g_method, "register_spawn returned but ->pid is %d, fork() returned %d", (int)c->wi->pid, (int)c->pid);
		S.spawned++;
	} else {
		pid_t p = fork();
		if (p == 0)
			child_script(c);
		if (p < 0)
			_exit(2);
		c->pid = p;
		if (kind == CK_FORK_INTEREST) {
			c->wi->pid = p;
			c->registered = 1;
			iv_wait_interest_register(c->wi);
			c->reg_done_seq = seq_next();
			S.forked_with_interest++;
		} else {
			S.strangers++;
		}
	}
	__real_close(c->cmd[0]);
	c->cmd[0] = -1;
	return c;
}

/* ---- per-loop program: a timer drives random child actions ---------------------------- */
struct prog { struct iv_timer *t; int steps; };
static struct prog progs[MAXLOOP];
static void prog_cb(void *cookie);

static void arm(struct loopthr *lt)
{
	struct prog *p = &progs[lt->idx];
	p->t = malloc(sizeof(struct iv_timer));
	IV_TIMER_INIT(p->t);
	iv_validate_now();
	p->t->expires = iv_now;
	p->t->expires.tv_nsec += 1000000 * (1 + rng_n(&lt->rng, 20));
	if (p->t->expires.tv_nsec >= VT_NS) { p->t->expires.tv_sec++; p->t->expires.tv_nsec -= VT_NS; }
	p->t->cookie = lt;
	p->t->handler = prog_cb;
	iv_timer_register(p->t);
}

static void prog_cb(void *cookie)
{
	struct loopthr *lt = cookie;
	struct prog *p = &progs[lt->idx];
	int k, n = nch;
	unsigned r;

	free(p->t);
	p->t = NULL;
	if (mt_phase)
		return;
	for (k = 0; k < 3; k++) {
		r = rng_n(&lt->rng, 100);
		if (r < 25) {
			make_child(lt, rng_pct(&lt->rng, 55) ? CK_SPAWN : rng_pct(&lt->rng, 50) ? CK_FORK_INTEREST : CK_STRANGER);
		} else if (n > 0) {
			struct child *c = &ch[rng_n(&lt->rng, n)];
			/* act on own children and on strangers only (the status change of someone else's child is their business) */
			if (c->kind == CK_ANCHOR || (c->owner >= 0 && c->owner != lt->idx) || (c->owner < 0 && lt->idx != 0) || c->pid <= 0 || c->told_exit || c->outstanding > 0)
				continue;
			if (r < 40) { tell(c, 's'); S.stops++; }
			else if (r < 55) {
				/* stop then continue at once: two status changes queue up behind each other */
				if (c->outstanding == 0 && !is_stopped(c)) {
					c->auto_cont = 1;
					tell(c, 's'); S.stops++; S.conts++;
				}
			}
			else if (r < 70) { tell(c, 'e'); S.exits++; }
			else if (r < 78) { tell(c, 'k'); S.kills++; }
			else if (r < 84) { tell(c, 't'); S.kills++; }
			else if (r < 90 && c->registered && c->wi != NULL && c->owner == lt->idx && c->kind != CK_ANCHOR && c->linger == 0 && !is_stopped(c)) {
				/* the owner kills its child and drops the interest on its own initiative, while whichever thread reaps (possibly another
				 * one, possibly in the middle of a pass) notices the death: nothing may reach the interest after the call returned */
				int spin = (int)rng_n(&lt->rng, 300);
				c->told_exit = 1;
				hist(c, 'K');
				atomic_fetch_add(&c->outstanding, 1);
				vt_ext_add(1);
				if (__real_kill(c->pid, SIGKILL) < 0) {
					atomic_fetch_sub(&c->outstanding, 1);
					vt_ext_add(-1);
				}
				while (spin-- > 0)
					sched_yield();
				c->unreg_by_other = 1;
				c->unreg_seq = seq_next();
				iv_wait_interest_unregister(c->wi);
				c->registered = 0;
				memset(c->wi, 0xDD, sizeof(*c->wi));
				free(c->wi);
				c->wi = NULL;
				S.kill_and_unregister++;
			}
			else if (c->registered && c->wi != NULL && c->owner == lt->idx) {
				/* kill helper at a random moment: if the death was reaped already it must refuse */
				uint64_t before = seq_next();
				int dead_before = c->dead_reaped && c->dead_seq < before;
				int rr = iv_wait_interest_kill(c->wi, 0);
				atomic_fetch_add(&c_killcalls, 1);
				if (dead_before) {
					atomic_fetch_add(&c_killdead, 1);
					if (rr >= 0)
						mon_viol("C11", "kill-helper-no-error", g_method, "iv_wait_interest_kill on pid %d succeeded although its termination had been reaped", (int)c->pid);
				}
			}
		}
	}
	/* interests that outlived their child: the kill helper must refuse, then they go */
	for (k = 0; k < n; k++) {
		struct child *c = &ch[k];
		if (c->linger == 1 && c->registered && c->owner == lt->idx && c->wi != NULL) {
			int rr = iv_wait_interest_kill(c->wi, rng_pct(&lt->rng, 50) ? 0 : SIGTERM);
			atomic_fetch_add(&c_killcalls, 1);
			atomic_fetch_add(&c_killdead, 1);
			if (rr >= 0)
				mon_viol("C11", "kill-helper-no-error", g_method, "iv_wait_interest_kill on pid %d succeeded although its terminating status had been delivered", (int)c->pid);
			c->linger = 2;
			c->unreg_seq = seq_next();
			iv_wait_interest_unregister(c->wi);
			c->registered = 0;
			memset(c->wi, 0xDD, sizeof(*c->wi));
			free(c->wi);
			c->wi = NULL;
		}
	}
	/* children that are stopped get continued at some point */
	for (k = 0; k < n; k++) {
		struct child *c = &ch[k];
		int i, stopped = 0;
		if (c->pid <= 0 || c->dead_reaped || c->outstanding > 0 || (c->owner >= 0 && c->owner != lt->idx) || (c->owner < 0 && lt->idx != 0))
			continue;
		stopped = is_stopped(c);
		(void)i;
		if (stopped && rng_pct(&lt->rng, 60)) {
			cont(c);
			S.conts++;
		}
	}
	if (--p->steps > 0)
		arm(lt);
}

static void scn_setup(struct loopthr *lt)
{
	progs[lt->idx].steps = 3 + rng_n(&lt->rng, 10);
	if (lt->idx == 0)
		make_child(lt, CK_ANCHOR);	/* keeps a SIGCHLD interest alive so that strangers get reaped by the library */
	if (rng_pct(&lt->rng, 70))
		make_child(lt, CK_SPAWN);
	arm(lt);
}

static int final_round;

static void scn_ctl(struct loopthr *lt, char cmd)
{
	int i, n = nch;
	if (cmd == 'F' || cmd == 'G') {
		/* finish: every child of this loop (and every stranger, from loop 0) is told to go; the anchor last ('G') */
		for (i = 0; i < n; i++) {
			struct child *c = &ch[i];
			if (c->pid <= 0 || c->dead_reaped || (c->kind == CK_ANCHOR) != (cmd == 'G'))
				continue;
			if (c->owner == lt->idx || (c->owner < 0 && lt->idx == 0)) {
				int stopped = is_stopped(c);
				if (!c->told_exit && c->outstanding == 0) {
					/* a stopped child must be killed (it cannot read its pipe) */
					if (stopped) {
						c->told_exit = 1;
						atomic_fetch_add(&c->outstanding, 1);
						vt_ext_add(1);
						__real_kill(c->pid, SIGKILL);
					} else {
						tell(c, 'e');
					}
				}
			}
		}
		return;
	}
	if (cmd != 'T')
		return;
	if (progs[lt->idx].t != NULL) {
		iv_timer_unregister(progs[lt->idx].t);
		free(progs[lt->idx].t);
		progs[lt->idx].t = NULL;
	}
	for (i = 0; i < n; i++) {
		struct child *c = &ch[i];
		if (c->registered && c->owner == lt->idx && c->wi != NULL) {
			c->unreg_seq = seq_next();
			iv_wait_interest_unregister(c->wi);
			c->registered = 0;
			free(c->wi);
			c->wi = NULL;
		}
	}
}

static void scn_after_main(struct loopthr *lt)
{
	if (!lt->torn)
		mon_viol("C07", "main-returned-early", g_method, "iv_main of loop %d returned before tear-down", lt->idx);
}

/* first quiescence: tell everybody to finish; second: evaluate */
static int scn_next_phase(void)
{
	int i;
	if (final_round >= 3)
		return 0;
	final_round++;
	/* rounds 1 and 2: everybody but the anchor (twice: children that were busy the first time); round 3: the anchor */
	for (i = 0; i < nloops; i++)
		mt_send_ctl(&loops[i], final_round < 3 ? 'F' : 'G');
	return 1;
}

static const char *stname(int st, char *buf)
{
	if (WIFEXITED(st)) sprintf(buf, "exit(%d)", WEXITSTATUS(st));
	else if (WIFSIGNALED(st)) sprintf(buf, "killed(%d)", WTERMSIG(st));
	else if (WIFSTOPPED(st)) sprintf(buf, "stopped(%d)", WSTOPSIG(st));
	else if (WIFCONTINUED(st)) sprintf(buf, "continued");
	else sprintf(buf, "0x%x", st);
	return buf;
}

static void scn_quiescent_check(void)
{
	int i, k, n = nch, g = ng < MAXG ? ng : MAXG;
	char b1[32], b2[32];

	for (i = 0; i < n; i++) {
		struct child *c = &ch[i];
		int exp[64], ne = 0, dead_seen = 0;
		if (c->kind == CK_STRANGER || c->pid <= 0)
			continue;
		/* expected: every status reaped for this pid after the registration call returned (all of them for spawned children),
		 * up to the terminating one, and only while the interest was registered */
		for (k = 0; k < g && ne < 64; k++) {
			if (G[k].pid != c->pid || dead_seen)
				continue;
			if (c->kind == CK_FORK_INTEREST && G[k].seq < c->reg_done_seq)
				continue;
			exp[ne++] = G[k].status;
			if (WIFEXITED(G[k].status) || WIFSIGNALED(G[k].status))
				dead_seen = 1;
		}
		/* delivered must be a prefix of expected; it must be all of it unless the interest was unregistered earlier */
		for (k = 0; k < c->ndel && k < 32; k++) {
			if (k >= ne) {
				mon_viol("C11", "extra-status", g_method, "pid %d: status %s delivered although wait4 never returned it (delivery %d of %d)", (int)c->pid, stname(c->dstat[k], b1), k + 1, c->ndel);
				break;
			}
			if (c->dstat[k] != exp[k]) {
				mon_viol("C11", "wrong-status-or-order", g_method, "pid %d: delivery %d is %s, the reaper saw %s at that position", (int)c->pid, k + 1, stname(c->dstat[k], b1), stname(exp[k], b2));
				break;
			}
		}
		if (c->ndel < ne) {
			/* fewer delivered: fine only if the handler unregistered the interest itself after delivery ndel (unreg_at) */
			if (!(c->unreg_at && c->ndel == c->unreg_at && !c->registered) && !c->unreg_by_other)
				mon_viol("C11", "status-not-delivered", g_method,
					 "pid %d (%s): the reaper saw %d status change(s) but only %d were delivered; first missing: %s", (int)c->pid,
					 c->kind == CK_SPAWN ? "spawned through the library" : c->kind == CK_ANCHOR ? "anchor" : "forked, then registered",
					 ne, c->ndel, stname(exp[c->ndel], b1));
		}
	}
}

static void scn_dead_end(void)
{
	mon_viol("C07", "hang-after-teardown", g_method, "tear-down was requested but a loop thread stays blocked for ever");
}

static void wait_fatal(const char *msg)
{
	mt_fatal(msg);
}

static void wd_dump(void)
{
	int i;
	mon_printf("NOTE wd: ext_pending=%d final_round=%d phase=%d nch=%d ng=%d\n", vt_ext_pending(), final_round, (int)mt_phase, (int)nch, (int)ng);
	for (i = 0; i < nch; i++)
		if (ch[i].outstanding || (ch[i].pid > 0 && !ch[i].dead_reaped))
			mon_printf("NOTE wd: child %d kind=%d pid=%d owner=%d outstanding=%d dead=%d told_exit=%d registered=%d stopped=%d auto_cont=%d linger=%d hist=%s\n",
				   i, ch[i].kind, (int)ch[i].pid, ch[i].owner, (int)ch[i].outstanding, (int)ch[i].dead_reaped, (int)ch[i].told_exit,
				   (int)ch[i].registered, is_stopped(&ch[i]), (int)ch[i].auto_cont, ch[i].linger, ch[i].hist);
}

static void run_case(long id, uint64_t seed)
{
	struct rng r;
	int nl, i, st;
	uint64_t cs;

	mon_case_id = id;
	mon_viol_case = 0;
	mon_watchdog_dump = wd_dump;
	mon_watchdog((int)(getenv("WD_SECS") ? atoi(getenv("WD_SECS")) : 120));
	cs = mix64(seed ^ (uint64_t)id * 0x9E3779B97F4A7C15ULL);
	rng_seed(&r, seed, (uint64_t)id);
	vt_reset_case(cs);
	vt_set_single(0);
	atomic_store(&nch, 0);
	atomic_store(&ng, 0);
	memset(ch, 0, sizeof(ch));
	final_round = 0;
	atomic_store(&ilv_hash, 0x11);
	nl = 1 + rng_n(&r, 3);
	mt_start_loops(nl, cs);
	mt_join_loops();
	for (i = 0; i < MAXLOOP; i++) {
		free(recycled[i]);
		recycled[i] = NULL;
	}

	/* nothing may be left behind: no zombie, no living child */
	for (i = 0; i < nch; i++) {
		if (ch[i].cmd[1] > 0) __real_close(ch[i].cmd[1]);
		if (ch[i].cmd[0] > 0) __real_close(ch[i].cmd[0]);
		if (ch[i].pid > 0 && !ch[i].dead_reaped) {
			/* strangers that died after the last interest went away are nobody's business but ours */
			if (ch[i].kind == CK_STRANGER) {
				__real_kill(ch[i].pid, SIGKILL);
				__real_wait4(ch[i].pid, &st, 0, NULL);
			} else {
				mon_viol("C11", "child-never-reaped", g_method, "pid %d had an interest and was told to exit but its termination was never reaped by the library", (int)ch[i].pid);
				__real_kill(ch[i].pid, SIGKILL);
				__real_wait4(ch[i].pid, &st, 0, NULL);
			}
		}
		if (ch[i].wi != NULL) {
			free(ch[i].wi);
			ch[i].wi = NULL;
		}
	}
	S.zombie_checks++;
	if (__real_wait4(-1, &st, WNOHANG, NULL) != -1 || errno != ECHILD)
		mon_viol("C11", "zombie-left", g_method, "after the case a child is still waitable (zombie or running)");
	S.cases++;
	mon_printf("CASE id=%ld trace=%016llx nt=%d loops=%d children=%d reaped=%d viol=%d\n", id, (unsigned long long)hash_step(atomic_load(&ilv_hash), ng),
		   ng > 1, nl, (int)nch, (int)ng, mon_viol_case);
	if (id % 29 == 0)
		mon_printf("SAMPLE case=%ld method=%s loops=%d children=%d statuses_reaped=%d (cumulative: delivered=%ld kill-helper calls=%ld of which on reaped-dead=%ld stranger deaths=%ld)\n",
			   id, g_method, nl, (int)nch, (int)ng, (long)c_delivered, (long)c_killcalls, (long)c_killdead, (long)c_stranger_deaths);
}

int main(int argc, char **argv)
{
	long first = arg_ll(argc, argv, "--first", 0), n = arg_ll(argc, argv, "--cases", 30), i;
	uint64_t seed = (uint64_t)arg_ll(argc, argv, "--seed", 1);

	g_prop = "C11";
	vt_init();
	vt_set_perturb((int)arg_ll(argc, argv, "--perturb", 1));
	iv_set_fatal_msg_handler(wait_fatal);
	signal(SIGPIPE, SIG_IGN);
	mt_learn_method();
	for (i = first; i < first + n; i++)
		run_case(i, seed);
	mon_printf("STAT method=%s cases=%llu children=%llu spawned=%llu forked_with_interest=%llu strangers=%llu stranger_deaths_reaped=%ld statuses_reaped=%ld "
		   "statuses_delivered=%ld stops=%llu continues=%llu exits=%llu kills=%llu immediate_exits=%llu interest_objects_reused_without_init=%llu killed_and_unregistered_at_once=%llu unregistered_in_handler_before_death=%llu "
		   "unregistered_by_another_handler=%llu kill_helper_calls=%ld kill_helper_on_reaped_dead=%ld zombie_checks=%llu shim_quiescences=%llu sig_deliveries=%llu violations=%d\n",
		   g_method, (unsigned long long)S.cases, (unsigned long long)S.children, (unsigned long long)S.spawned, (unsigned long long)S.forked_with_interest,
		   (unsigned long long)S.strangers, (long)c_stranger_deaths, (long)c_reaped, (long)c_delivered, (unsigned long long)S.stops,
		   (unsigned long long)S.conts, (unsigned long long)S.exits, (unsigned long long)S.kills, (unsigned long long)S.immediate_exits, (unsigned long long)S.interests_reused, (unsigned long long)S.kill_and_unregister,
		   (unsigned long long)S.unreg_in_handler, (unsigned long long)S.unreg_other, (long)c_killcalls, (long)c_killdead, (unsigned long long)S.zombie_checks,
		   (unsigned long long)vt_stats.quiescences, (unsigned long long)vt_stats.sig_deliveries, mon_viol_total);
	mon_printf("DONE\n");
	return 0;
}
