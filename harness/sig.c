/*
 * sig.c - C10: every delivery of a signal reaches the interests with the documented fan-out.
 *
 * The shim's sigaction trampoline yields one exact event per kernel delivery (signal number and
 * receiving thread); writes to the interests' event descriptors made inside the library's signal
 * handler tell which interests were woken; handler entries are logged by the harness.
 * One signal per signal number is in flight at a time (senders wait for the delivery), so the
 * default disposition can be restored safely when the last interest goes away.
 * See DESIGN.md 3 C10.
 */
#include <signal.h>
#include <sys/syscall.h>
#include <sys/wait.h>
#include <iv_signal.h>
#include <time.h>
#include "mt.h"

#define MAXI 48
#define NSIG_T 4
static const int signums[NSIG_T] = { SIGUSR1, SIGUSR2, 35, 36 };

struct islot {
	struct iv_signal	*s;
	int			owner;		/* loop index */
	int			sidx;		/* index into signums */
	unsigned		flags;
	_Atomic int		state;		/* 0 free, 1 registered, 2 changing */
	_Atomic uint64_t	w_pre, w_post;		/* latest wake: sequence numbers taken just before / after its write(2) */
	_Atomic uint64_t	r_pre_cur, prev_r_pre;	/* drains: before the read in progress / before the previous successful read */
	_Atomic uint64_t	last_entry_seq;
	_Atomic int		pending_at_drain;
	_Atomic int		lenient_first;	/* a delivery of its signal overlapped the registration: the first run cannot be attributed */
	_Atomic long		wakes, entries;
	int			rfd, wfd;
};
static struct islot is[MAXI];
static _Atomic short fd2slot_w[4096], fd2slot_r[4096];	/* slot + 1 */
static pthread_mutex_t regmtx = PTHREAD_MUTEX_INITIALIZER;
static pthread_mutex_t sendmtx[NSIG_T];
static _Atomic int count[NSIG_T];
static _Atomic uint64_t chg[NSIG_T];		/* bumped at begin and end of every register/unregister of that signal */
static _Atomic uint64_t deliv[NSIG_T], deliv_started[NSIG_T];
static int actions_left[MAXLOOP];
static pthread_t main_thread;
static __thread int tl_loop = -1;		/* loop index of this thread, -1 for non-loop threads */
static __thread int tl_in_unreg = -1;
static __thread int tl_handover_wakes;

/* the delivery being handled by this thread (signal handlers do not nest: the library installs them with a full mask) */
struct deliv_rec { int active, sidx; uint64_t chg0; int nwoken; short woken[MAXI]; };
static __thread struct deliv_rec tl_d;

static struct {
	uint64_t cases, deliveries, deliveries_checked, ambiguous, wakes, entries, handovers_expected, handovers_seen, dfl_checks, fork_raises, fork_raises_from_loop, raw_forks, children_killed,
		 thread_directed, process_directed, during_handler, this_thread_first, exclusive_stops, obligations, discharged, nonloop_receiver;
} S;
static _Atomic long c_deliv, c_checked, c_amb, c_wakes, c_entries, c_ho_exp, c_ho_seen, c_dfl, c_td, c_pd, c_during, c_ttf, c_excl, c_nonloop;
static _Atomic int handler_running[MAXI];

static int sidx_of(int signum)
{
	int i;
	for (i = 0; i < NSIG_T; i++)
		if (signums[i] == signum)
			return i;
	return -1;
}

void hk_sig_enter(int signum)
{
	int si = sidx_of(signum);
	if (si < 0)
		return;
	atomic_fetch_add(&deliv_started[si], 1);
	tl_d.active = 1;
	tl_d.sidx = si;
	tl_d.chg0 = atomic_load(&chg[si]);
	tl_d.nwoken = 0;
}

static int stable_member(int i, int si)
{
	return atomic_load(&is[i].state) == 1 && is[i].sidx == si;
}

void hk_sig_exit(int signum)
{
	int si = sidx_of(signum), i, k, nts = 0, nps = 0, cand_excl = 0, ncand = 0, woken_excl = 0;
	int ts[MAXI], ps[MAXI], *cand;

	if (si < 0 || !tl_d.active)
		return;
	tl_d.active = 0;
	atomic_fetch_add(&c_deliv, 1);
	if (tl_loop < 0)
		atomic_fetch_add(&c_nonloop, 1);
	/* judge the fan-out only if no registration of this signal changed during the delivery */
	if ((tl_d.chg0 & 1) || atomic_load(&chg[si]) != tl_d.chg0) {
		atomic_fetch_add(&c_amb, 1);
		goto done;
	}
	for (i = 0; i < MAXI; i++) {
		if (!stable_member(i, si))
			continue;
		if (is[i].flags & IV_SIGNAL_FLAG_THIS_THREAD) {
			if (is[i].owner == tl_loop)
				ts[nts++] = i;
		} else {
			ps[nps++] = i;
		}
	}
	if ((tl_d.chg0 & 1) || atomic_load(&chg[si]) != tl_d.chg0) {
		atomic_fetch_add(&c_amb, 1);
		goto done;
	}
	atomic_fetch_add(&c_checked, 1);
	cand = nts ? ts : ps;
	ncand = nts ? nts : nps;
	if (nts)
		atomic_fetch_add(&c_ttf, 1);
	for (k = 0; k < ncand; k++)
		cand_excl += !!(is[cand[k]].flags & IV_SIGNAL_FLAG_EXCLUSIVE);
	for (k = 0; k < tl_d.nwoken; k++) {
		int w = tl_d.woken[k], in = 0, j;
		woken_excl += !!(is[w].flags & IV_SIGNAL_FLAG_EXCLUSIVE);
		for (j = 0; j < ncand; j++)
			in |= cand[j] == w;
		if (!in)
			mon_viol("C10", "woke-outside-set", g_method,
				 "delivery of signal %d in %s thread woke interest %d (flags %u, loop %d), which is not in the set that applies (%s interests: %d)",
				 signum, tl_loop >= 0 ? "loop" : "non-loop", w, is[w].flags, is[w].owner, nts ? "this-thread" : "process-wide", ncand);
	}
	if (ncand > 0 && tl_d.nwoken == 0)
		mon_viol("C10", "delivery-lost", g_method, "delivery of signal %d (receiver: %s thread %d) woke no interest although %d %s interest(s) are registered",
			 signum, tl_loop >= 0 ? "loop" : "non-loop", tl_loop, ncand, nts ? "this-thread" : "process-wide");
	if (woken_excl > 1)
		mon_viol("C10", "two-exclusive", g_method, "delivery of signal %d woke %d exclusive interests", signum, woken_excl);
	if (cand_excl > 0) {
		atomic_fetch_add(&c_excl, 1);
		if (tl_d.nwoken > 0 && woken_excl != 1)
			mon_viol("C10", "exclusive-not-honoured", g_method, "delivery of signal %d: the set holds %d exclusive interest(s) but %d exclusive were woken (%d woken in all)",
				 signum, cand_excl, woken_excl, tl_d.nwoken);
	} else if (ncand > 0 && tl_d.nwoken != ncand) {
		mon_viol("C10", "not-all-woken", g_method, "delivery of signal %d: %d non-exclusive interests in the set, %d woken", signum, ncand, tl_d.nwoken);
	}
done:
	atomic_fetch_add(&deliv[si], 1);
}

void hk_write(int fd, const void *buf, size_t n, long ret, int err, int nb)
{
	int slot;
	(void)buf; (void)n; (void)err; (void)nb;
	if (fd < 0 || fd >= 4096 || (slot = fd2slot_w[fd] - 1) < 0 || ret <= 0)
		return;
	atomic_store(&is[slot].w_post, seq_next());
	atomic_fetch_add(&is[slot].wakes, 1);
	atomic_fetch_add(&c_wakes, 1);
	if (atomic_load(&handler_running[slot]))
		atomic_fetch_add(&c_during, 1);
	if (tl_d.active) {
		if (tl_d.nwoken < MAXI)
			tl_d.woken[tl_d.nwoken++] = (short)slot;
	} else if (tl_in_unreg >= 0) {
		tl_handover_wakes++;
	}
}

void hk_write_pre(int fd)
{
	int slot;
	if (fd < 0 || fd >= 4096 || (slot = fd2slot_w[fd] - 1) < 0)
		return;
	/* the owner may drain the descriptor before the writer gets to log the completed write */
	atomic_store(&is[slot].w_pre, seq_next());
}

void hk_read_pre(int fd)
{
	int slot;
	if (fd < 0 || fd >= 4096 || (slot = fd2slot_r[fd] - 1) < 0)
		return;
	atomic_store(&is[slot].r_pre_cur, seq_next());
}

void hk_read(int fd, const void *buf, size_t n, long ret, int err)
{
	int slot;
	uint64_t wpre, wpost;
	(void)buf; (void)n; (void)err;
	if (fd < 0 || fd >= 4096 || (slot = fd2slot_r[fd] - 1) < 0 || ret <= 0)
		return;
	/*
	 * The handler run that follows this successful drain is justified if some wake's write(2) can have landed after
	 * the previous drain's read(2): its completion was logged after that read began, or it is still in progress.
	 */
	wpre = atomic_load(&is[slot].w_pre);
	wpost = atomic_load(&is[slot].w_post);
	atomic_store(&is[slot].pending_at_drain, wpost > atomic_load(&is[slot].prev_r_pre) || wpre > wpost);
	atomic_store(&is[slot].prev_r_pre, atomic_load(&is[slot].r_pre_cur));
}

static void sig_cb(void *cookie);

static int slot_register(struct loopthr *lt)
{
	int i, ret, si;
	uint64_t ds0, df0;

	__real_pthread_mutex_lock(&regmtx);
	for (i = 0; i < MAXI; i++)
		if (atomic_load(&is[i].state) == 0)
			break;
	if (i == MAXI) {
		__real_pthread_mutex_unlock(&regmtx);
		return -1;
	}
	atomic_store(&is[i].state, 2);
	si = rng_n(&lt->rng, NSIG_T);
	is[i].s = malloc(sizeof(struct iv_signal));
	memset(is[i].s, 0xA5, sizeof(struct iv_signal));
	IV_SIGNAL_INIT(is[i].s);
	is[i].s->signum = signums[si];
	is[i].flags = (rng_pct(&lt->rng, 35) ? IV_SIGNAL_FLAG_EXCLUSIVE : 0) | (rng_pct(&lt->rng, 35) ? IV_SIGNAL_FLAG_THIS_THREAD : 0);
	is[i].s->flags = is[i].flags;
	is[i].s->cookie = (void *)(uintptr_t)(i + 1);
	is[i].s->handler = sig_cb;
	is[i].owner = lt->idx;
	is[i].sidx = si;
	is[i].w_pre = is[i].w_post = is[i].r_pre_cur = is[i].prev_r_pre = is[i].last_entry_seq = 0;
	is[i].pending_at_drain = 0;
	is[i].wakes = is[i].entries = 0;
	atomic_fetch_add(&chg[si], 1);
	ds0 = atomic_load(&deliv_started[si]);
	df0 = atomic_load(&deliv[si]);
	ret = iv_signal_register(is[i].s);
	if (ret == 0) {
		is[i].rfd = is[i].s->ev.event_rfd.fd;
		is[i].wfd = is[i].s->ev.event_wfd;
		if (is[i].wfd >= 0 && is[i].wfd < 4096) fd2slot_w[is[i].wfd] = (short)(i + 1);
		if (is[i].rfd >= 0 && is[i].rfd < 4096) fd2slot_r[is[i].rfd] = (short)(i + 1);
		atomic_store(&is[i].lenient_first, ds0 != df0 || atomic_load(&deliv_started[si]) != ds0);
		atomic_fetch_add(&count[si], 1);
		atomic_store(&is[i].state, 1);
	} else {
		free(is[i].s);
		is[i].s = NULL;
		atomic_store(&is[i].state, 0);
	}
	atomic_fetch_add(&chg[si], 1);
	__real_pthread_mutex_unlock(&regmtx);
	ilv(lt->idx, 1, i);
	return ret ? -1 : i;
}

static void slot_unregister(struct loopthr *lt, int i)
{
	int si = is[i].sidx, pending, others = 0, j, last;

	if (atomic_load(&is[i].state) != 1 || is[i].owner != lt->idx)
		return;
	__real_pthread_mutex_lock(&sendmtx[si]);	/* no signal of this number is in flight */
	__real_pthread_mutex_lock(&regmtx);
	atomic_fetch_add(&chg[si], 1);
	atomic_store(&is[i].state, 2);
	/* a delivery is noted for it: a wake began after its last handler entry (no signal of this number is in flight now) */
	pending = atomic_load(&is[i].w_pre) > atomic_load(&is[i].last_entry_seq);
	/* a wake that was drained but whose handler has not been entered yet is no longer "noted" in the library's sense */
	for (j = 0; j < MAXI; j++)
		if (j != i && atomic_load(&is[j].state) == 1 && is[j].sidx == si &&
		    ((is[i].flags & IV_SIGNAL_FLAG_THIS_THREAD) ? ((is[j].flags & IV_SIGNAL_FLAG_THIS_THREAD) && is[j].owner == is[i].owner)
								 : !(is[j].flags & IV_SIGNAL_FLAG_THIS_THREAD)))
			others++;
	last = atomic_load(&count[si]) == 1;
	tl_in_unreg = i;
	tl_handover_wakes = 0;
	if (is[i].wfd >= 0 && is[i].wfd < 4096) fd2slot_w[is[i].wfd] = 0;
	if (is[i].rfd >= 0 && is[i].rfd < 4096) fd2slot_r[is[i].rfd] = 0;
	iv_signal_unregister(is[i].s);
	tl_in_unreg = -1;
	memset(is[i].s, 0xDD, sizeof(struct iv_signal));
	free(is[i].s);
	is[i].s = NULL;
	atomic_fetch_sub(&count[si], 1);
	if ((is[i].flags & IV_SIGNAL_FLAG_EXCLUSIVE) && pending && others > 0 && !last) {
		atomic_fetch_add(&c_ho_exp, 1);
		if (tl_handover_wakes == 0)
			mon_viol("C10", "exclusive-delivery-dropped", g_method,
				 "exclusive interest %d for signal %d was unregistered with a delivery noted and not yet handled; %d other interest(s) of its set are registered but none was woken",
				 i, signums[si], others);
		else
			atomic_fetch_add(&c_ho_seen, 1);
	}
	if (last) {
		struct sigaction old;
		__real_sigaction(signums[si], NULL, &old);
		atomic_fetch_add(&c_dfl, 1);
		if (old.sa_handler != SIG_DFL)
			mon_viol("C10", "disposition-not-restored", g_method, "the last interest for signal %d was unregistered but the disposition is not SIG_DFL", signums[si]);
	}
	atomic_store(&is[i].state, 0);
	atomic_fetch_add(&chg[si], 1);
	__real_pthread_mutex_unlock(&regmtx);
	__real_pthread_mutex_unlock(&sendmtx[si]);
	ilv(lt->idx, 2, i);
}

/* send one signal and wait until it was delivered; target < 0: process-directed */
static int send_signal(int si, int target_loop, int to_main)
{
	uint64_t before;
	int guard = 0, r;

	__real_pthread_mutex_lock(&sendmtx[si]);
	if (atomic_load(&count[si]) == 0 || atomic_load(&mt_phase)) {
		__real_pthread_mutex_unlock(&sendmtx[si]);
		return 0;
	}
	before = atomic_load(&deliv[si]);
	if (to_main) {
		r = pthread_kill(main_thread, signums[si]);
		atomic_fetch_add(&c_td, 1);
	} else if (target_loop >= 0) {
		r = pthread_kill(loops[target_loop].th, signums[si]);
		atomic_fetch_add(&c_td, 1);
	} else {
		r = kill(getpid(), signums[si]);
		atomic_fetch_add(&c_pd, 1);
	}
	if (r == 0) {
		while (atomic_load(&deliv[si]) == before && guard++ < 50000000)
			sched_yield();
		/* not delivered yet (the receiving thread may simply not have been given a processor): the sender does not go on - the
		 * disposition could be put back to the default with this signal still on its way - but waits at leisure; a delivery that
		 * never comes ends at the wall-clock guard of the case, which is inconclusive */
		if (atomic_load(&deliv[si]) == before) {
			mon_printf("NOTE signal %d sent by a sender thread was not delivered within 50000000 yields: waiting on\n", signums[si]);
			while (atomic_load(&deliv[si]) == before) {
				struct timespec ts = { 0, 1000000 };
				nanosleep(&ts, NULL);
			}
		}
	}
	__real_pthread_mutex_unlock(&sendmtx[si]);
	return 1;
}

long __real_syscall(long, ...);
/* the child only raises a few signals and exits; one that does not come back within 3 s of real time (it may spin on a lock that
 * was held by another thread at the moment of the fork, if it gets as far as taking locks) is killed: that is the child's problem,
 * not a verdict about the parent */
static void wait_child(pid_t p, int *st)
{
	int k;
	for (k = 0; k < 3000; k++) {
		struct timespec ts = { 0, 1000000 };
		pid_t r = __real_wait4(p, st, WNOHANG, NULL);
		if (r == p || (r < 0 && errno != EINTR))
			return;
		nanosleep(&ts, NULL);
	}
	__real_kill(p, SIGKILL);
	while (__real_wait4(p, st, 0, NULL) < 0 && errno == EINTR)
		;
	S.children_killed++;
	mon_printf("NOTE a forked child that received the signals did not exit within 3 s and was killed\n");
}

static _Atomic int loop_forks;	/* per case */

static void sig_cb(void *cookie)
{
	int i = (int)(uintptr_t)cookie - 1, k;
	struct loopthr *lt;

	if (i < 0 || i >= MAXI || atomic_load(&is[i].state) != 1) {
		mon_viol("C01", "stale-handler", "sig", "signal interest handler invoked for slot %d which is not registered", i);
		mon_viol("C10", "handler-of-unregistered", g_method, "signal interest handler invoked for slot %d which is not registered", i);
		return;
	}
	lt = &loops[is[i].owner];
	if (!pthread_equal(pthread_self(), lt->th))
		mon_viol("C10", "wrong-thread", g_method, "handler of interest %d (registered in loop %d) invoked in another thread", i, is[i].owner);
	k = atomic_exchange(&is[i].lenient_first, 0);
	if (!atomic_load(&is[i].pending_at_drain) && k == 0)
		mon_viol("C10", "handler-without-delivery", g_method,
			 "handler of interest %d (signal %d) ran although no delivery woke it since its previous run (a forked child or a stray write triggered it)",
			 i, signums[is[i].sidx]);
	atomic_store(&is[i].pending_at_drain, 0);
	atomic_store(&is[i].last_entry_seq, seq_next());
	atomic_fetch_add(&is[i].entries, 1);
	atomic_fetch_add(&c_entries, 1);
	ilv(lt->idx, 4, i);

	if (mt_phase || actions_left[lt->idx] <= 0)
		return;
	actions_left[lt->idx]--;
	atomic_store(&handler_running[i], 1);
	k = rng_n(&lt->rng, 100);
	if (k < 25) {			/* a delivery while this handler runs (to this thread, another loop, the process) */
		unsigned r = rng_n(&lt->rng, 3);
		send_signal(rng_pct(&lt->rng, 60) ? is[i].sidx : (int)rng_n(&lt->rng, NSIG_T), r == 0 ? lt->idx : r == 1 ? (int)rng_n(&lt->rng, nloops) : -1, 0);
	} else if (k < 40) {		/* unregister another interest of this loop: often one with a delivery noted */
		int j, best = -1;
		for (j = 0; j < MAXI; j++)
			if (j != i && atomic_load(&is[j].state) == 1 && is[j].owner == lt->idx) {
				if (best < 0 || atomic_load(&is[j].w_pre) > atomic_load(&is[j].last_entry_seq))
					best = j;
			}
		atomic_store(&handler_running[i], 0);
		if (best >= 0)
			slot_unregister(lt, best);
		return;
	} else if (k < 48) {
		atomic_store(&handler_running[i], 0);
		slot_unregister(lt, i);
		return;
	} else if (k < 62) {
		slot_register(lt);
	} else if (k < 70) {
		struct timespec ts = { 0, 1000 * (1 + (long)rng_n(&lt->rng, 300)) };
		nanosleep(&ts, NULL);	/* a long handler: deliveries pile up meanwhile */
	} else if (k < 75 && atomic_fetch_add(&loop_forks, 1) < 2) {
		/* this loop thread forks (the child inherits its this-thread interests and every event descriptor) and the child
		 * receives the signals: nothing may happen in the parent */
		pid_t p;
		int sgi;
		vt_ext_add(1);
		/* through fork(3) (the C library runs its atfork handlers) or through the bare system call (nothing runs) */
		if (rng_pct(&lt->rng, 50)) {
			p = fork();
		} else {
			p = (pid_t)__real_syscall(SYS_fork);
			if (p == 0)
				vt_mark_child();
			S.raw_forks++;
		}
		if (p == 0) {
			for (sgi = 0; sgi < NSIG_T; sgi++) {
				struct sigaction old;
				__real_sigaction(signums[sgi], NULL, &old);
				if (old.sa_handler != SIG_DFL && old.sa_handler != SIG_IGN)
					raise(signums[sgi]);
			}
			_exit(0);
		}
		if (p > 0) {
			int st;
			vt_block_begin();
			wait_child(p, &st);
			vt_block_end();
			S.fork_raises_from_loop++;
		}
		vt_ext_add(-1);
	}
	atomic_store(&handler_running[i], 0);
}

static void scn_setup(struct loopthr *lt)
{
	int n = 1 + rng_n(&lt->rng, 5), i;
	tl_loop = lt->idx;
	for (i = 0; i < n; i++)
		slot_register(lt);
	actions_left[lt->idx] = 8 + rng_n(&lt->rng, 40);
}

static void scn_ctl(struct loopthr *lt, char cmd)
{
	int i;
	if (cmd != 'T')
		return;
	for (i = 0; i < MAXI; i++)
		if (atomic_load(&is[i].state) == 1 && is[i].owner == lt->idx)
			slot_unregister(lt, i);
}

static void scn_after_main(struct loopthr *lt)
{
	if (!lt->torn)
		mon_viol("C07", "main-returned-early", g_method, "iv_main of loop %d returned before tear-down", lt->idx);
}

static int scn_next_phase(void) { return 0; }

void hk_idle(void)
{
	int i;
	if (atomic_load(&mt_phase))
		return;
	for (i = 0; i < MAXI; i++)
		if (atomic_load(&is[i].state) == 1 && is[i].w_pre > is[i].last_entry_seq && is[i].w_post >= is[i].w_pre)
			mon_viol("C10", "blocked-with-noted-delivery", g_method,
				 "every thread is blocked and interest %d (signal %d, loop %d) was woken by a delivery after its last handler entry (%ld wakes, %ld runs)",
				 i, signums[is[i].sidx], is[i].owner, (long)is[i].wakes, (long)is[i].entries);
}

static void scn_quiescent_check(void)
{
	int i;
	for (i = 0; i < MAXI; i++) {
		if (atomic_load(&is[i].state) != 1)
			continue;
		if (is[i].wakes > 0)
			S.obligations++;
		if (is[i].w_pre > is[i].last_entry_seq)
			mon_viol("C10", "woken-but-never-run", g_method,
				 "every thread is blocked and interest %d (signal %d, loop %d, flags %u) was woken by a delivery that began after its last handler entry (%ld wakes, %ld runs)",
				 i, signums[is[i].sidx], is[i].owner, is[i].flags, (long)is[i].wakes, (long)is[i].entries);
		else if (is[i].wakes > 0)
			S.discharged++;
	}
}

static void scn_dead_end(void)
{
	mon_viol("C07", "hang-after-teardown", g_method, "tear-down was requested but a loop thread stays blocked for ever");
}

struct sender { pthread_t th; int idx; struct rng rng; int n; };

static void *sender_main(void *v)
{
	struct sender *s = v;
	int k;
	for (k = 0; k < s->n && !atomic_load(&mt_phase); k++) {
		unsigned r = rng_n(&s->rng, 100);
		int si = rng_n(&s->rng, NSIG_T);
		if (r < 55)
			send_signal(si, rng_n(&s->rng, nloops), 0);
		else if (r < 75)
			send_signal(si, -1, 0);
		else if (r < 90)
			send_signal(si, -1, 1);		/* thread-directed to the main thread, which never called iv_init here */
		else {
			struct timespec ts = { 0, 1000 * (1 + (long)rng_n(&s->rng, 200)) };
			nanosleep(&ts, NULL);
		}
	}
	return NULL;
}

static void run_case(long id, uint64_t seed)
{
	struct rng r;
	struct sender snd[4];
	int i, nl, ns;
	uint64_t cs;

	mon_case_id = id;
	mon_viol_case = 0;
	mon_watchdog(90);
	cs = mix64(seed ^ (uint64_t)id * 0x9E3779B97F4A7C15ULL);
	rng_seed(&r, seed, (uint64_t)id);
	vt_reset_case(cs);
	vt_set_single(0);
	memset(is, 0, sizeof(is));
	memset((void *)fd2slot_w, 0, sizeof(fd2slot_w));
	memset((void *)fd2slot_r, 0, sizeof(fd2slot_r));
	for (i = 0; i < NSIG_T; i++) { count[i] = 0; chg[i] = 0; deliv[i] = 0; deliv_started[i] = 0; }
	atomic_store(&ilv_hash, 0x33);
	atomic_store(&loop_forks, 0);

	nl = 1 + rng_n(&r, 4);
	ns = 1 + rng_n(&r, 3);
	mt_start_loops(nl, cs);
	for (i = 0; i < ns; i++) {
		snd[i].idx = i;
		snd[i].n = 4 + rng_n(&r, 40);
		rng_seed(&snd[i].rng, cs, 7000 + i);
		pthread_create(&snd[i].th, NULL, sender_main, &snd[i]);
	}
	if (rng_pct(&r, 30)) {
		/* a forked child raises the signals: nothing may happen in the parent */
		pid_t p;
		vt_ext_add(1);
		p = fork();
		if (p == 0) {
			for (i = 0; i < NSIG_T; i++) {
				struct sigaction old;
				__real_sigaction(signums[i], NULL, &old);
				if (old.sa_handler != SIG_DFL && old.sa_handler != SIG_IGN)
					raise(signums[i]);
			}
			_exit(0);
		}
		if (p > 0) {
			int st;
			vt_block_begin();
			wait_child(p, &st);
			vt_block_end();
			S.fork_raises++;
		}
		vt_ext_add(-1);
	}
	for (i = 0; i < ns; i++)
		pthread_join(snd[i].th, NULL);
	mt_join_loops();

	for (i = 0; i < NSIG_T; i++) {
		struct sigaction old;
		__real_sigaction(signums[i], NULL, &old);
		if (old.sa_handler != SIG_DFL)
			mon_viol("C10", "disposition-not-restored", g_method, "after every interest was unregistered the disposition of signal %d is not SIG_DFL", signums[i]);
	}
	S.cases++;
	mon_printf("CASE id=%ld trace=%016llx nt=%d loops=%d senders=%d deliveries=%ld viol=%d\n", id, (unsigned long long)atomic_load(&ilv_hash),
		   c_deliv > 0, nl, ns, (long)c_deliv, mon_viol_case);
	if (id % 41 == 0)
		mon_printf("SAMPLE case=%ld method=%s loops=%d senders=%d (cumulative: deliveries=%ld fan-out checked=%ld ambiguous=%ld wakes=%ld handler runs=%ld hand-overs=%ld/%ld)\n",
			   id, g_method, nl, ns, (long)c_deliv, (long)c_checked, (long)c_amb, (long)c_wakes, (long)c_entries, (long)c_ho_seen, (long)c_ho_exp);
}

int main(int argc, char **argv)
{
	long first = arg_ll(argc, argv, "--first", 0), n = arg_ll(argc, argv, "--cases", 50), i;
	uint64_t seed = (uint64_t)arg_ll(argc, argv, "--seed", 1);

	g_prop = "C10";
	vt_init();
	vt_set_perturb((int)arg_ll(argc, argv, "--perturb", 1));
	iv_set_fatal_msg_handler(mt_fatal);
	signal(SIGPIPE, SIG_IGN);
	main_thread = pthread_self();
	for (i = 0; i < NSIG_T; i++)
		pthread_mutex_init(&sendmtx[i], NULL);
	mt_learn_method();
	for (i = first; i < first + n; i++)
		run_case(i, seed);
	mon_printf("STAT method=%s cases=%llu deliveries=%ld fanout_checked=%ld ambiguous_skipped=%ld received_by_non_loop_thread=%ld thread_directed=%ld process_directed=%ld "
		   "this_thread_set_applied=%ld exclusive_sets=%ld wakes=%ld wakes_during_own_handler=%ld handler_runs=%ld handovers_expected=%ld handovers_seen=%ld "
		   "default_disposition_checks=%ld fork_raises=%llu fork_raises_from_loop_thread=%llu of_which_bare_fork_syscall=%llu obligations=%llu discharged=%llu shim_quiescences=%llu violations=%d\n",
		   g_method, (unsigned long long)S.cases, (long)c_deliv, (long)c_checked, (long)c_amb, (long)c_nonloop, (long)c_td, (long)c_pd,
		   (long)c_ttf, (long)c_excl, (long)c_wakes, (long)c_during, (long)c_entries, (long)c_ho_exp, (long)c_ho_seen, (long)c_dfl,
		   (unsigned long long)S.fork_raises, (unsigned long long)S.fork_raises_from_loop, (unsigned long long)S.raw_forks, (unsigned long long)S.obligations, (unsigned long long)S.discharged,
		   (unsigned long long)vt_stats.quiescences, mon_viol_total);
	mon_printf("DONE\n");
	return 0;
}
