/*
 * pump.c - C17: iv_fd_pump relays the byte stream intact and reports its state truthfully.
 *
 * The harness owns both far ends: it feeds position-coded bytes into the pump's input descriptor
 * and drains (and verifies) the pump's output descriptor, in random chunk sizes and at random
 * moments; it calls iv_fd_pump_pump() only for a band the pump asked for and that poll(2)
 * confirms.  Ground truth about what the pump itself read / wrote / spliced comes from the
 * system-call shim.  One transfer mode per process (splice, or read/write when the splice
 * probe is made to fail).  See DESIGN.md 3 C17.
 */
#ifndef _GNU_SOURCE
#define _GNU_SOURCE
#endif
#include <errno.h>
#include <fcntl.h>
#include <poll.h>
#include <signal.h>
#include <stdio.h>
#include <stdlib.h>
#include <string.h>
#include <unistd.h>
#include <sys/ioctl.h>
#include <sys/socket.h>
#include <iv.h>
#include <iv_fd_pump.h>
#include "vt.h"
#include "mon.h"

static struct rng R;
static int g_rw_mode;			/* read/write mode (splice unavailable) */
static const char *g_mode = "splice";

struct px {
	struct iv_fd_pump	*ip;
	int		in_r, in_w;	/* input channel: pump reads in_r, harness feeds in_w (-1 once closed) */
	int		out_w, out_r;	/* output channel: pump writes out_w, harness drains out_r (-1 once closed) */
	int		sock_in, sock_out;
	long		total, fed, drained;
	uint8_t		salt;
	int		bands_in, bands_out, bands_calls;
	int		relay;
	/* ground truth from the shim */
	int		saw_eof_read;	/* the pump's read/splice on in_r returned 0 */
	int		io_error;	/* a read/write/splice of the pump failed with something else than EAGAIN/EINTR */
	int		peer_eof;	/* drain side saw end of file */
	int		last_ret, ret0_seen, done;
	long		ncalls;
	int		alive;
};
static struct px *cur[2];
static long last_total;
static uint64_t case_sig0;
static int last_in_sock, last_out_sock, last_relay;

static struct {
	uint64_t cases, pumps, calls, bytes, full_states, eof_with_data, errors_injected, destroyed_midway, band_checks, eagain_out,
		 ret1, ret0, retm1, stalls, relay_eof, max_buffered, spurious_calls, window_feeds, small_out_buffers;
} S;

static inline uint8_t code(const struct px *p, long pos) { return (uint8_t)(pos * 131 + (pos >> 8) * 7 + p->salt); }

static void set_bands(void *cookie, int pollin, int pollout)
{
	struct px *p = cookie;
	p->bands_in = pollin;
	p->bands_out = pollout;
	p->bands_calls++;
}

static struct px *px_of_fd(int fd, int *is_in)
{
	int i;
	for (i = 0; i < 2; i++) {
		if (cur[i] == NULL || !cur[i]->alive)
			continue;
		if (fd == cur[i]->in_r) { *is_in = 1; return cur[i]; }
		if (fd == cur[i]->out_w) { *is_in = 0; return cur[i]; }
	}
	return NULL;
}

static void note_io(int fd, long ret, int err)
{
	int is_in;
	struct px *p = px_of_fd(fd, &is_in);
	if (p == NULL)
		return;
	if (ret == 0 && is_in)
		p->saw_eof_read = 1;
	if (ret < 0 && err != EAGAIN && err != EINTR)
		p->io_error = 1;
	if (ret < 0 && err == EAGAIN && !is_in)
		S.eagain_out++;
}

static int in_pump_call;
void hk_read(int fd, const void *buf, size_t n, long ret, int err) { (void)buf; if (in_pump_call && n > 0) note_io(fd, ret, err); }
void hk_write(int fd, const void *buf, size_t n, long ret, int err, int nb) { (void)buf; (void)n; (void)nb; if (in_pump_call) note_io(fd, ret, err); }
static void feed(struct px *p, long n);
static int window_feed_armed, no_spurious;
void hk_splice(int fdin, int fdout, size_t len, long ret, int err)
{
	int is_in;
	struct px *p;
	(void)len;
	if (!in_pump_call)
		return;
	if ((p = px_of_fd(fdin, &is_in)) != NULL) {
		note_io(fdin, ret, err);
		/* a writer's data lands on the input right after the pump's splice found it empty (before whatever the pump does next) */
		if (ret < 0 && err == EAGAIN && is_in && window_feed_armed && p->in_w >= 0 && p->fed < p->total) {
			window_feed_armed = 0;
			feed(p, 1 + rng_n(&R, 300));
			S.window_feeds++;
		}
	} else {
		note_io(fdout, ret, err);
	}
}

static void set_nb(int fd) { fcntl(fd, F_SETFL, fcntl(fd, F_GETFL) | O_NONBLOCK); }

static long fionread(int fd)
{
	int n = 0;
	if (fd < 0 || ioctl(fd, FIONREAD, &n) < 0)
		return 0;
	return n;
}

static int readable(int fd) { struct pollfd p = { fd, POLLIN, 0 }; return __real_poll(&p, 1, 0) > 0 && (p.revents & (POLLIN | POLLHUP | POLLERR)); }
static int writable(int fd) { struct pollfd p = { fd, POLLOUT, 0 }; return __real_poll(&p, 1, 0) > 0 && (p.revents & (POLLOUT | POLLHUP | POLLERR)); }

static struct px *px_new(void)
{
	struct px *p = calloc(1, sizeof(*p));
	int a[2], b[2];

	p->sock_in = rng_pct(&R, 50);
	p->sock_out = rng_pct(&R, 50);
	if (p->sock_in) { if (socketpair(AF_UNIX, SOCK_STREAM, 0, a) < 0) _exit(2); p->in_w = a[0]; p->in_r = a[1]; }
	else { if (__real_pipe(a) < 0) _exit(2); p->in_r = a[0]; p->in_w = a[1]; }
	if (p->sock_out) { if (socketpair(AF_UNIX, SOCK_STREAM, 0, b) < 0) _exit(2); p->out_w = b[0]; p->out_r = b[1]; }
	else { if (__real_pipe(b) < 0) _exit(2); p->out_r = b[0]; p->out_w = b[1]; }
	set_nb(p->in_r); set_nb(p->in_w); set_nb(p->out_r); set_nb(p->out_w);
	if (p->sock_out && rng_pct(&R, 60)) {
		/* a small socket buffer on the output: writes are accepted in part, so bytes stay behind in the pump's buffer and the next
		 * read tops it up with less than a full buffer */
		int sz = 2048 + (int)rng_n(&R, 6000);
		setsockopt(p->out_w, SOL_SOCKET, SO_SNDBUF, &sz, sizeof(sz));
		sz = 2048 + (int)rng_n(&R, 3000);
		setsockopt(p->out_r, SOL_SOCKET, SO_RCVBUF, &sz, sizeof(sz));
		S.small_out_buffers++;
	}
	switch (rng_n(&R, 6)) {
	case 0: p->total = 0; break;
	case 1: p->total = 1 + rng_n(&R, 100); break;
	case 2: p->total = 4096 * (1 + rng_n(&R, 3)) + (long)rng_n(&R, 3) - 1; break;
	case 3: p->total = 1 + rng_n(&R, 20000); break;
	case 4: p->total = 60000 + rng_n(&R, 200000); break;
	default: p->total = 1 + rng_n(&R, 1048576); break;
	}
	p->salt = (uint8_t)rng_n(&R, 256);
	p->relay = rng_pct(&R, 70);
	p->ip = malloc(sizeof(struct iv_fd_pump));
	memset(p->ip, 0xA5, sizeof(*p->ip));
	IV_FD_PUMP_INIT(p->ip);
	p->ip->from_fd = p->in_r;
	p->ip->to_fd = p->out_w;
	p->ip->cookie = p;
	p->ip->set_bands = set_bands;
	p->ip->flags = p->relay ? IV_FD_PUMP_FLAG_RELAY_EOF : 0;
	p->bands_in = p->bands_out = -1;
	p->alive = 1;
	p->last_ret = 1;
	iv_fd_pump_init(p->ip);
	if (p->bands_in != 1 || p->bands_out != 0)
		mon_viol("C17", "bands-after-init", g_mode, "after iv_fd_pump_init the requested bands are in=%d out=%d (expected 1,0)", p->bands_in, p->bands_out);
	S.pumps++;
	return p;
}

static void feed(struct px *p, long n)
{
	static uint8_t buf[65536];
	long i, w;

	if (p->in_w < 0)
		return;
	if (n > p->total - p->fed)
		n = p->total - p->fed;
	if (n > (long)sizeof(buf))
		n = sizeof(buf);
	if (n <= 0)
		return;
	for (i = 0; i < n; i++)
		buf[i] = code(p, p->fed + i);
	w = __real_write(p->in_w, buf, n);
	if (w > 0)
		p->fed += w;
}

static void close_feeder(struct px *p)
{
	if (p->in_w >= 0) {
		__real_close(p->in_w);
		p->in_w = -1;
	}
}

static void drain(struct px *p, long n)
{
	static uint8_t buf[65536];
	long r, i;

	if (p->out_r < 0)
		return;
	if (n > (long)sizeof(buf))
		n = sizeof(buf);
	r = __real_read(p->out_r, buf, n);
	if (r == 0) {
		if (!p->peer_eof) {
			p->peer_eof = 1;
			S.relay_eof++;
			if (p->drained != p->fed || p->in_w >= 0)
				mon_viol("C17", "eof-before-data", g_mode, "end of file arrived at the output peer after %ld bytes although %ld were fed (feeder %s)",
					 p->drained, p->fed, p->in_w >= 0 ? "still open" : "closed");
			if (!p->relay && p->alive)
				mon_viol("C17", "eof-relayed-without-flag", g_mode, "the output was shut down although IV_FD_PUMP_FLAG_RELAY_EOF is not set");
		}
		return;
	}
	for (i = 0; i < r; i++) {
		if (p->drained + i >= p->fed) {
			mon_viol("C17", "extra-bytes", g_mode, "byte %ld arrived at the output although only %ld bytes were fed (duplication)", p->drained + i, p->fed);
			break;
		}
		if (buf[i] != code(p, p->drained + i)) {
			mon_viol("C17", "stream-corrupt", g_mode, "output byte %ld is 0x%02x, expected 0x%02x (loss, duplication or reordering; %ld fed)",
				 p->drained + i, buf[i], code(p, p->drained + i), p->fed);
			p->drained = p->fed;	/* resynchronising is pointless */
			return;
		}
	}
	if (r > 0) {
		p->drained += r;
		S.bytes += r;
	}
}

/* bytes the pump holds right now */
static long buffered(struct px *p)
{
	return p->fed - fionread(p->in_r) - p->drained - fionread(p->out_r);
}

static void call_pump(struct px *p)
{
	int ret, want_in, want_out;
	long buf_before, buf_after;

	want_in = p->bands_in && readable(p->in_r);
	want_out = p->bands_out && writable(p->out_w);
	if (!want_in && !want_out) {
		/* mostly the pump is called because a band it asked for is ready; now and then it is called although nothing is (the first
		 * kick after set-up, a wake-up whose cause is gone) */
		if (p->ret0_seen || no_spurious || !rng_pct(&R, 12))
			return;
		S.spurious_calls++;
	}
	window_feed_armed = rng_pct(&R, 40);
	buf_before = buffered(p);
	in_pump_call = 1;
	ret = iv_fd_pump_pump(p->ip);
	in_pump_call = 0;
	p->ncalls++;
	S.calls++;
	p->last_ret = ret;
	buf_after = buffered(p);
	if ((uint64_t)buf_after > S.max_buffered)
		S.max_buffered = buf_after;
	(void)buf_before;

	if (ret == 1) S.ret1++; else if (ret == 0) S.ret0++; else S.retm1++;
	/* return code */
	if (p->io_error) {
		if (ret != -1)
			mon_viol("C17", "error-not-reported", g_mode, "a read/write/splice of the pump failed but iv_fd_pump_pump returned %d", ret);
		return;
	}
	if (ret == -1) {
		mon_viol("C17", "spurious-error", g_mode, "iv_fd_pump_pump returned -1 although no system call of the pump failed (buffered %ld, eof read %d)", buf_after, p->saw_eof_read);
		return;
	}
	if (p->ret0_seen && ret != 0)
		mon_viol("C17", "return-after-done", g_mode, "iv_fd_pump_pump returned %d after it had returned 0", ret);
	if (ret == 0) {
		p->ret0_seen = 1;
		if (!p->saw_eof_read)
			mon_viol("C17", "done-without-eof", g_mode, "iv_fd_pump_pump returned 0 but its input never reported end of file (%ld of %ld bytes fed, %ld buffered)", p->fed, p->total, buf_after);
		if (buf_after != 0)
			mon_viol("C17", "done-with-data-buffered", g_mode, "iv_fd_pump_pump returned 0 while %ld bytes are still buffered", buf_after);
	} else {
		if (p->saw_eof_read && buf_after == 0)
			mon_viol("C17", "not-done-after-eof", g_mode, "end of file was read and nothing is buffered, but iv_fd_pump_pump returned 1");
	}
	if (iv_fd_pump_is_done(p->ip) != (ret == 0))
		mon_viol("C17", "is_done-disagrees", g_mode, "iv_fd_pump_is_done() = %d after iv_fd_pump_pump returned %d", iv_fd_pump_is_done(p->ip), ret);

	/* bands */
	S.band_checks++;
	if (ret == 0) {
		if (p->bands_in || p->bands_out)
			mon_viol("C17", "bands-after-done", g_mode, "bands in=%d out=%d requested after completion", p->bands_in, p->bands_out);
		return;
	}
	if ((buf_after > 0) != (p->bands_out != 0))
		mon_viol("C17", "band-out-wrong", g_mode, "output band requested = %d while %ld bytes are buffered", p->bands_out, buf_after);
	if (p->saw_eof_read && p->bands_in)
		mon_viol("C17", "band-in-after-eof", g_mode, "input band still requested after end of file was read");
	if (!p->saw_eof_read && !p->bands_in && buf_after == 0)
		mon_viol("C17", "band-in-dropped", g_mode, "input band not requested although nothing is buffered and no end of file was seen");
	if (!p->bands_in && !p->bands_out)
		mon_viol("C17", "no-band", g_mode, "iv_fd_pump_pump returned 1 but requests neither band (the pump can never be called again)");
	if (g_rw_mode && !p->saw_eof_read) {
		if (p->bands_in != (buf_after < 4096))
			mon_viol("C17", "band-in-vs-space", g_mode, "read/write mode: input band requested = %d with %ld of 4096 buffer bytes used", p->bands_in, buf_after);
		if (buf_after == 4096)
			S.full_states++;
	}
	if (p->saw_eof_read && buf_after > 0)
		S.eof_with_data++;
}

static void px_free(struct px *p)
{
	if (p->in_w >= 0) __real_close(p->in_w);
	if (p->out_r >= 0) __real_close(p->out_r);
	__real_close(p->in_r);
	__real_close(p->out_w);
	free(p->ip);
	free(p);
}

/* drive one pump to its end */
static void run_pump(int slot)
{
	struct px *p = px_new();
	long steps = 0, maxsteps = 200 + p->total / 8;
	int destroy_at = rng_pct(&R, 12) ? (int)rng_n(&R, 200) : -1;
	int kill_out_at = rng_pct(&R, 10) ? (int)rng_n(&R, 200) : -1;
	int lazy_drain = rng_pct(&R, 40);	/* back-pressure: the reader is slow */
	int big_chunks = rng_pct(&R, 50);

	cur[slot] = p;
	last_total = p->total; last_in_sock = p->sock_in; last_out_sock = p->sock_out; last_relay = p->relay;
	while (steps++ < maxsteps && p->last_ret != 0 && !p->io_error && p->last_ret != -1) {
		unsigned r = rng_n(&R, 100);
		if ((int)steps == destroy_at)
			break;
		if ((int)steps == kill_out_at && p->out_r >= 0 && buffered(p) + fionread(p->in_r) > 0) {
			/* the far end of the output goes away: writes fail from now on */
			__real_close(p->out_r);
			p->out_r = -1;
			S.errors_injected++;
		}
		if (r < 30) {
			feed(p, big_chunks ? 1 + rng_n(&R, 65536) : 1 + rng_n(&R, 600));
			if (p->fed == p->total && rng_pct(&R, 50))
				close_feeder(p);
		} else if (r < (lazy_drain ? 40u : 60u)) {
			drain(p, rng_pct(&R, 50) ? 1 + rng_n(&R, 64) : 1 + rng_n(&R, 65536));
		} else {
			call_pump(p);
		}
	}
	if (p->last_ret == 1 && (int)steps != destroy_at + 1 && !p->io_error && destroy_at < 0) {
		/* finish: feed the rest, signal end of file, keep draining; the pump must come to its end */
		long idle = 0;
		no_spurious = 1;	/* from here on the pump is only called for a band it asked for: "no progress" must mean a stall */
		while (p->last_ret != 0 && !p->io_error && idle < 64 && p->out_r >= 0) {
			long before = p->fed + p->drained + p->ncalls;
			if (p->fed < p->total)
				feed(p, 65536);
			else
				close_feeder(p);
			drain(p, 65536);
			call_pump(p);
			idle = (p->fed + p->drained + p->ncalls == before) ? idle + 1 : 0;
		}
		if (p->last_ret != 0 && !p->io_error && p->out_r >= 0) {
			S.stalls++;
			mon_viol("C17", "stall", g_mode,
				 "the pump neither finishes nor asks for a band that is ready: fed %ld of %ld (feeder %s), drained %ld, buffered %ld, bands in=%d out=%d, input readable=%d output writable=%d",
				 p->fed, p->total, p->in_w >= 0 ? "open" : "closed", p->drained, buffered(p), p->bands_in, p->bands_out, readable(p->in_r), writable(p->out_w));
		}
	} else if (p->last_ret == 1) {
		S.destroyed_midway++;
	}
	if (p->last_ret == 0 && !p->io_error && p->out_r >= 0) {
		int k;
		for (k = 0; k < 64 && p->drained < p->fed; k++)
			drain(p, 65536);
		if (p->drained != p->fed || (p->in_w < 0 && p->fed != p->total && 0))
			mon_viol("C17", "bytes-lost", g_mode, "the pump reported completion but only %ld of the %ld bytes fed arrived", p->drained, p->fed);
		if (p->relay && p->sock_out && !p->peer_eof) {
			drain(p, 1);
			if (!p->peer_eof)
				mon_viol("C17", "eof-not-relayed", g_mode, "RELAY_EOF is set and the pump is done, but the output peer sees no end of file");
		}
	}
	no_spurious = 0;
	p->bands_calls = 0;
	iv_fd_pump_destroy(p->ip);
	p->alive = 0;
	if (p->last_ret != 0 && (p->bands_in != 0 || p->bands_out != 0))
		mon_viol("C17", "bands-after-destroy", g_mode, "after iv_fd_pump_destroy the bands are in=%d out=%d", p->bands_in, p->bands_out);
	cur[slot] = NULL;
	px_free(p);
}

static void run_case(long id, uint64_t seed)
{
	int n, i;

	mon_case_id = id;
	mon_viol_case = 0;
	mon_watchdog(60);
	rng_seed(&R, seed, (uint64_t)id);
	case_sig0 = S.eagain_out + S.full_states + S.eof_with_data + S.errors_injected + S.destroyed_midway;
	iv_init();
	n = 1 + rng_n(&R, 4);
	for (i = 0; i < n; i++)
		run_pump(0);		/* sequential pumps share the per-thread buffer cache */
	iv_deinit();
	S.cases++;
	{
		/* non-trivial: the case saw back-pressure (EAGAIN on the output), a full buffer, end of file with data pending, a write error or a mid-way destroy */
		uint64_t now_sig = S.eagain_out + S.full_states + S.eof_with_data + S.errors_injected + S.destroyed_midway;
		mon_printf("CASE id=%ld trace=%016llx nt=%d pumps=%d viol=%d\n", id, (unsigned long long)mix64(seed * 31 + id), now_sig != case_sig0, n, mon_viol_case);
	}
	if (id % 97 == 0)
		mon_printf("SAMPLE case=%ld mode=%s pumps=%d last pump: length=%ld input=%s output=%s relay_eof=%d (cumulative: pump calls=%llu, bytes verified=%llu, returns 1/0/-1 = %llu/%llu/%llu)\n",
			   id, g_mode, n, last_total, last_in_sock ? "socket" : "pipe", last_out_sock ? "socket" : "pipe", last_relay,
			   (unsigned long long)S.calls, (unsigned long long)S.bytes, (unsigned long long)S.ret1, (unsigned long long)S.ret0, (unsigned long long)S.retm1);
}

int main(int argc, char **argv)
{
	long first = arg_ll(argc, argv, "--first", 0), n = arg_ll(argc, argv, "--cases", 100), i;
	uint64_t seed = (uint64_t)arg_ll(argc, argv, "--seed", 1);
	const char *f = getenv("VT_FAULTS");

	vt_init();
	vt_set_virtual(0);
	signal(SIGPIPE, SIG_IGN);
	g_rw_mode = f != NULL && strstr(f, "splice:") != NULL;
	g_mode = g_rw_mode ? "read-write" : "splice";
	for (i = first; i < first + n; i++)
		run_case(i, seed);
	mon_printf("STAT mode_%s=1 cases=%llu pumps=%llu pump_calls=%llu bytes_verified=%llu band_checks=%llu buffer_full_states=%llu eof_with_data_pending=%llu "
		   "write_errors_injected=%llu destroyed_midway=%llu ret1=%llu ret0=%llu retm1=%llu eof_relayed=%llu eagain_on_output=%llu calls_with_nothing_ready=%llu data_arriving_right_after_empty_splice=%llu injected=%llu violations=%d\n",
		   g_rw_mode ? "rw" : "splice", (unsigned long long)S.cases, (unsigned long long)S.pumps, (unsigned long long)S.calls, (unsigned long long)S.bytes,
		   (unsigned long long)S.band_checks, (unsigned long long)S.full_states, (unsigned long long)S.eof_with_data,
		   (unsigned long long)S.errors_injected, (unsigned long long)S.destroyed_midway, (unsigned long long)S.ret1, (unsigned long long)S.ret0,
		   (unsigned long long)S.retm1, (unsigned long long)S.relay_eof, (unsigned long long)S.eagain_out, (unsigned long long)S.spurious_calls, (unsigned long long)S.window_feeds, (unsigned long long)vt_stats.injected, mon_viol_total);
	mon_printf("DONE\n");
	return 0;
}
