/*
 * work.c - C12 (iv_work items run once in a worker, complete once in the owner, all finish)
 *          C13 (pool shutdown drains, hooks paired, threads joined, references released;
 *               iv_thread children keep their creator's iv_main from returning until joined).
 *
 * One or two owner loops, each with a pool (max_threads 1..8) and a program of bursts driven by
 * owner timers in virtual time (so the 10 s idle time-out expires between bursts), continuations
 * from work functions, submissions from completions, NULL-pool items, iv_work_pool_put at a random
 * point, iv_thread children of every exit style.  See DESIGN.md 3 C12 / C13.
 */
#include <iv_work.h>
#include <iv_thread.h>
#include <time.h>
#define MT_OWN_THREAD_HOOKS
#include "mt.h"

#define MAXITEM 2048
struct item {
	struct iv_work_item	*wi;
	int			pool;		/* owner index, -1: NULL pool */
	_Atomic int		submitted;
	_Atomic int		works, completions;
	_Atomic uint64_t	submit_seq, work_exit_seq;
	int			before_put;
	pthread_t		submitter;
};
static struct item items[MAXITEM];
static _Atomic int nitems;

struct pool {
	struct iv_work_pool	*wp;		/* malloc'ed public struct, freed right after iv_work_pool_put */
	int			max_threads;
	_Atomic int		created, put;
	_Atomic int		starts, stops, running_work, max_seen;
	pthread_mutex_t		mtx;		/* harness: serialises continuation submits with the put (API precondition) */
	int			bursts_left;
	struct iv_timer		*burst_timer;
	int			put_at_burst;	/* put the pool when this many bursts are left (-1: at tear-down) */
	int			put_from_completion;
	int			actions;
	_Atomic int		children_created, children_done;
	long			worker_ok_base;	/* owner's count of created workers when the pool was created */
};
static struct pool pools[MAXLOOP];
static __thread int tl_worker_of = -1;		/* set by the thread-start hook */
static __thread long tl_created, tl_joined;	/* pthread_create / pthread_join issued by this thread */
static __thread int tl_in_submit;

static struct {
	uint64_t cases, items, works, completions, continuations, from_completion, null_items, bursts, puts, puts_busy, puts_from_completion,
		 starts, stops, max_concurrent, idle_deaths, threads, children, time_advances, obligations, discharged, create_failures, submits_without_worker;
} S;

static int g_tc_fault;
static _Atomic long create_failures;	/* pthread_create failed (injected) in this case: queued items may legitimately wait for a worker that never comes */
static __thread long tl_worker_attempts, tl_worker_ok;	/* worker threads the library tried to create / created from this (owner) thread */
static __thread int tl_spawning_child;			/* ... as opposed to the iv_thread children of the scenario */
void hk_thread_create(unsigned long th, int ret)
{
	(void)th;
	if (!ret) { atomic_fetch_add(&n_thr_created, 1); tl_created++; } else atomic_fetch_add(&create_failures, 1);
	if (!tl_spawning_child) {
		tl_worker_attempts++;
		if (!ret)
			tl_worker_ok++;
	}
}
void hk_thread_join(unsigned long th) { (void)th; atomic_fetch_add(&n_thr_joined, 1); tl_joined++; }

static int64_t delays_ns[] = { 0, 1000000, 5 * VT_NS, 10 * VT_NS - 1000000, 10 * VT_NS - 1, 10 * VT_NS, 10 * VT_NS + 1, 10 * VT_NS + 1000000, 15 * VT_NS, 25 * VT_NS };

static void work_fn(void *cookie);
static void completion_fn(void *cookie);
static void burst_timer_cb(void *cookie);

static int item_new(int pool)
{
	int i = atomic_fetch_add(&nitems, 1);
	if (i >= MAXITEM) {
		atomic_fetch_sub(&nitems, 1);
		return -1;
	}
	memset(&items[i], 0, sizeof(items[i]));
	items[i].wi = malloc(sizeof(struct iv_work_item));
	memset(items[i].wi, 0xA5, sizeof(struct iv_work_item));
	IV_WORK_ITEM_INIT(items[i].wi);
	items[i].wi->cookie = (void *)(uintptr_t)(i + 1);
	items[i].wi->work = work_fn;
	items[i].wi->completion = completion_fn;
	items[i].pool = pool;
	items[i].submitter = pthread_self();
	return i;
}

/* owner thread: submit one item to its pool (or to the NULL pool) */
static void submit_item(struct loopthr *lt, int null_pool)
{
	struct pool *p = &pools[lt->idx];
	int i;

	if (!null_pool && (p->put || !p->created))
		return;
	i = item_new(null_pool ? -1 : lt->idx);
	if (i < 0)
		return;
	items[i].before_put = 1;
	atomic_store(&items[i].submit_seq, seq_next());
	atomic_store(&items[i].submitted, 1);
	ilv(lt->idx, 1, i);
	{
		/* workers of this pool that exist by the harness's own count (created minus thread-stop hooks run); both change only under
		 * the pool lock or in this thread, so a zero read here is still zero when the library decides inside the call */
		long att0 = tl_worker_attempts;
		int live0 = null_pool ? 1 : (int)(tl_worker_ok - p->worker_ok_base) - (int)atomic_load(&p->stops);
		tl_in_submit = 1;
		iv_work_pool_submit_work(null_pool ? NULL : p->wp, items[i].wi);
		tl_in_submit = 0;
		if (!null_pool && live0 <= 0) {
			S.submits_without_worker++;
			if (tl_worker_attempts == att0)
				mon_viol("C12", "no-worker-started", g_method,
					 "item %d was submitted by owner %d while no worker of the pool existed (%ld created, %d stopped), and the library did not even try to start one: nothing will ever run the item",
					 i, lt->idx, tl_worker_ok - p->worker_ok_base, (int)p->stops);
		}
	}
	if (null_pool)
		S.null_items++;
}

static void do_put(struct loopthr *lt, int from_completion)
{
	struct pool *p = &pools[lt->idx];

	if (!p->created || p->put)
		return;
	__real_pthread_mutex_lock(&p->mtx);
	atomic_store(&p->put, 1);
	if (p->running_work > 0)
		S.puts_busy++;
	ilv(lt->idx, 5, 0);
	iv_work_pool_put(p->wp);
	memset(p->wp, 0xDD, sizeof(*p->wp));
	free(p->wp);			/* "the pool structure may be reused by the caller immediately" */
	p->wp = NULL;
	__real_pthread_mutex_unlock(&p->mtx);
	S.puts++;
	if (from_completion)
		S.puts_from_completion++;
}

static void start_hook(void *cookie)
{
	struct pool *p = cookie;
	tl_worker_of = (int)(p - pools);
	atomic_fetch_add(&p->starts, 1);
	ilv(100 + vt_self(), 6, (unsigned)(p - pools));
}

static void stop_hook(void *cookie)
{
	struct pool *p = cookie;
	if (tl_worker_of != (int)(p - pools))
		mon_viol("C13", "stop-hook-without-start", g_method, "thread-stop hook of pool %d ran in a thread that never ran its thread-start hook", (int)(p - pools));
	tl_worker_of = -2;
	atomic_fetch_add(&p->stops, 1);
	ilv(100 + vt_self(), 7, (unsigned)(p - pools));
}

static void work_fn(void *cookie)
{
	int i = (int)(uintptr_t)cookie - 1, n, c;
	struct item *it = &items[i];
	struct pool *p;
	struct rng r;

	n = atomic_fetch_add(&it->works, 1) + 1;
	if (n != 1)
		mon_viol("C12", "work-twice", g_method, "work function of item %d executed %d times", i, n);
	ilv(100 + vt_self(), 2, i);
	if (it->pool < 0) {
		if (!pthread_equal(pthread_self(), it->submitter))
			mon_viol("C12", "null-pool-wrong-thread", g_method, "NULL-pool item %d: work function ran in another thread than the submitter", i);
		if (tl_in_submit)
			mon_viol("C12", "null-pool-inside-submit", g_method, "NULL-pool item %d: work function ran inside the submit call instead of from a task", i);
		atomic_store(&it->work_exit_seq, seq_next());
		return;
	}
	p = &pools[it->pool];
	if (pthread_equal(pthread_self(), loops[it->pool].th))
		mon_viol("C12", "work-in-owner", g_method, "work function of item %d executed in the owner thread", i);
	if (tl_worker_of != it->pool)
		mon_viol("C12", "work-in-foreign-thread", g_method, "work function of item %d executed in a thread that did not run the pool's thread-start hook (tag %d)", i, tl_worker_of);
	c = atomic_fetch_add(&p->running_work, 1) + 1;
	if (c > p->max_threads)
		mon_viol("C12", "too-many-concurrent", g_method, "%d work functions of pool %d run at once, max_threads is %d", c, it->pool, p->max_threads);
	if (c > p->max_seen)
		p->max_seen = c;
	rng_seed(&r, (uint64_t)i * 77 + 5, it->submit_seq);
	if (rng_pct(&r, 30)) {
		struct timespec ts = { 0, 1000 * (1 + (long)rng_n(&r, 300)) };
		nanosleep(&ts, NULL);
	}
	if (rng_pct(&r, 20)) {
		/* continuation from the worker (allowed from any thread while the pool has not been released) */
		__real_pthread_mutex_lock(&p->mtx);
		if (!p->put) {
			int j = item_new(it->pool);
			if (j >= 0) {
				items[j].before_put = 1;
				atomic_store(&items[j].submit_seq, seq_next());
				atomic_store(&items[j].submitted, 1);
				iv_work_pool_submit_continuation(p->wp, items[j].wi);
				S.continuations++;
			}
		}
		__real_pthread_mutex_unlock(&p->mtx);
	}
	atomic_fetch_sub(&p->running_work, 1);
	atomic_store(&it->work_exit_seq, seq_next());
}

static void completion_fn(void *cookie)
{
	int i = (int)(uintptr_t)cookie - 1, n;
	struct item *it = &items[i];
	struct loopthr *lt;
	struct pool *p;

	n = atomic_fetch_add(&it->completions, 1) + 1;
	if (n != 1)
		mon_viol("C12", "completion-twice", g_method, "completion of item %d executed %d times", i, n);
	if (it->works != 1 || it->work_exit_seq == 0)
		mon_viol("C12", "completion-before-work", g_method, "completion of item %d ran although its work function has not returned (works %d)", i, (int)it->works);
	ilv(100 + vt_self(), 3, i);
	if (it->pool < 0) {
		if (!pthread_equal(pthread_self(), it->submitter))
			mon_viol("C12", "null-pool-wrong-thread", g_method, "NULL-pool item %d: completion ran in another thread than the submitter", i);
		free(it->wi);
		it->wi = NULL;
		return;
	}
	lt = &loops[it->pool];
	p = &pools[it->pool];
	if (!pthread_equal(pthread_self(), lt->th))
		mon_viol("C12", "completion-wrong-thread", g_method, "completion of item %d executed outside the owner thread", i);
	free(it->wi);			/* the item belongs to the caller again */
	it->wi = NULL;
	if (mt_phase || p->actions <= 0)
		return;
	p->actions--;
	if (rng_pct(&lt->rng, 25)) {
		int k, m = 1 + rng_n(&lt->rng, 3);
		for (k = 0; k < m; k++) {
			submit_item(lt, rng_pct(&lt->rng, 10));
			S.from_completion++;
		}
	}
	if (p->put_from_completion && !p->put && rng_pct(&lt->rng, 30))
		do_put(lt, 1);
}

/* ---- iv_thread children ------------------------------------------------------ */
struct child_arg { int owner, style; int64_t delay; struct iv_timer t; };

static void child_timer_cb(void *c) { (void)c; }

static void child_fn(void *v)
{
	struct child_arg *a = v;
	struct pool *p = &pools[a->owner];

	switch (a->style) {
	case 0:
		break;
	case 1:
		atomic_fetch_add(&p->children_done, 1);
		free(a);
		pthread_exit(NULL);
	case 2: case 3:
		iv_init();
		IV_TIMER_INIT(&a->t);
		iv_validate_now();
		a->t.expires = iv_now;
		a->t.expires.tv_sec += a->delay / VT_NS;
		a->t.expires.tv_nsec += a->delay % VT_NS;
		if (a->t.expires.tv_nsec >= VT_NS) { a->t.expires.tv_sec++; a->t.expires.tv_nsec -= VT_NS; }
		a->t.handler = child_timer_cb;
		iv_timer_register(&a->t);
		iv_main();
		if (a->style == 2)
			iv_deinit();	/* style 3 leaves the tear-down to the thread-exit destructor */
		break;
	}
	atomic_fetch_add(&p->children_done, 1);
	free(a);
}

static void spawn_child(struct loopthr *lt)
{
	struct child_arg *a = calloc(1, sizeof(*a));
	int i_ret;
	a->owner = lt->idx;
	a->style = rng_n(&lt->rng, 4);
	a->delay = delays_ns[rng_n(&lt->rng, 5)];
	tl_spawning_child = 1;
	i_ret = iv_thread_create("child", child_fn, a);
	tl_spawning_child = 0;
	if (i_ret == 0) {
		atomic_fetch_add(&pools[lt->idx].children_created, 1);
		S.children++;
	} else {
		free(a);
	}
}

/* ---- owner program ------------------------------------------------------------- */
static void arm_burst_timer(struct loopthr *lt)
{
	struct pool *p = &pools[lt->idx];
	int64_t d = delays_ns[rng_n(&lt->rng, sizeof(delays_ns) / sizeof(delays_ns[0]))];

	p->burst_timer = malloc(sizeof(struct iv_timer));
	IV_TIMER_INIT(p->burst_timer);
	iv_validate_now();
	p->burst_timer->expires = iv_now;
	p->burst_timer->expires.tv_sec += d / VT_NS;
	p->burst_timer->expires.tv_nsec += d % VT_NS;
	if (p->burst_timer->expires.tv_nsec >= VT_NS) { p->burst_timer->expires.tv_sec++; p->burst_timer->expires.tv_nsec -= VT_NS; }
	p->burst_timer->cookie = lt;
	p->burst_timer->handler = burst_timer_cb;
	iv_timer_register(p->burst_timer);
}

static void do_burst(struct loopthr *lt)
{
	struct pool *p = &pools[lt->idx];
	int n = rng_pct(&lt->rng, 20) ? 20 + rng_n(&lt->rng, 40) : 1 + rng_n(&lt->rng, 8), k;

	S.bursts++;
	for (k = 0; k < n; k++)
		submit_item(lt, rng_pct(&lt->rng, 6));
	if (rng_pct(&lt->rng, 25))
		spawn_child(lt);
	if (p->put_at_burst == p->bursts_left && !p->put_from_completion)
		do_put(lt, 0);
}

static void burst_timer_cb(void *cookie)
{
	struct loopthr *lt = cookie;
	struct pool *p = &pools[lt->idx];

	free(p->burst_timer);
	p->burst_timer = NULL;
	if (mt_phase)
		return;
	do_burst(lt);
	if (--p->bursts_left > 0)
		arm_burst_timer(lt);
}

static void scn_setup(struct loopthr *lt)
{
	struct pool *p = &pools[lt->idx];

	memset(p, 0, sizeof(*p));
	pthread_mutex_init(&p->mtx, NULL);
	p->max_threads = 1 + rng_n(&lt->rng, rng_pct(&lt->rng, 40) ? 2 : 8);
	p->wp = malloc(sizeof(struct iv_work_pool));
	IV_WORK_POOL_INIT(p->wp);
	p->wp->max_threads = p->max_threads;
	p->wp->cookie = p;
	p->wp->thread_start = start_hook;
	p->wp->thread_stop = stop_hook;
	if (iv_work_pool_create(p->wp) < 0) {
		mon_printf("NOTE harness: iv_work_pool_create failed\n");
		_exit(2);
	}
	p->created = 1;
	p->worker_ok_base = tl_worker_ok;
	p->bursts_left = 1 + rng_n(&lt->rng, 5);
	p->put_at_burst = rng_pct(&lt->rng, 60) ? 1 + (int)rng_n(&lt->rng, p->bursts_left) : -1;
	p->put_from_completion = rng_pct(&lt->rng, 25);
	p->actions = 5 + rng_n(&lt->rng, 30);
	if (rng_pct(&lt->rng, 15)) {
		/* release a pool that never started a worker */
		if (rng_pct(&lt->rng, 50))
			do_put(lt, 0);
	}
	if (rng_pct(&lt->rng, 70))
		do_burst(lt);		/* a burst before any worker exists; possibly put straight after the first submit */
	if (--p->bursts_left > 0)
		arm_burst_timer(lt);
}

static void scn_ctl(struct loopthr *lt, char cmd)
{
	struct pool *p = &pools[lt->idx];
	if (cmd != 'T')
		return;
	if (p->burst_timer != NULL) {
		iv_timer_unregister(p->burst_timer);
		free(p->burst_timer);
		p->burst_timer = NULL;
	}
	do_put(lt, 0);
}

static void scn_after_main(struct loopthr *lt)
{
	struct pool *p = &pools[lt->idx];

	if (!lt->torn)
		mon_viol("C07", "main-returned-early", g_method, "iv_main of owner %d returned before tear-down although its control descriptor is registered", lt->idx);
	if (tl_created != tl_joined)
		mon_viol("C13", "main-returned-before-join", g_method,
			 "iv_main of owner %d returned although %ld of the %ld threads it created (workers and iv_thread children) were not joined",
			 lt->idx, tl_created - tl_joined, tl_created);
	if (p->starts != p->stops)
		mon_viol("C13", "hooks-unpaired-at-return", g_method, "owner %d: iv_main returned with %d thread-start and %d thread-stop hook calls", lt->idx, (int)p->starts, (int)p->stops);
	if (p->children_created != p->children_done)
		mon_viol("C13", "main-returned-before-child-exit", g_method, "owner %d: iv_main returned while %d of %d iv_thread children are still running",
			 lt->idx, p->children_created - p->children_done, (int)p->children_created);
}

static int scn_next_phase(void) { return 0; }

void hk_idle(void)
{
	int i, n = nitems, bad = 0;
	if (atomic_load(&mt_phase) || atomic_load(&create_failures))
		return;
	/* every thread is blocked: an item that was submitted and has not completed can only be rescued by an unrelated time-out */
	for (i = 0; i < n && bad < 3; i++) {
		struct item *it = &items[i];
		if (it->submitted && (it->works != 1 || it->completions != 1)) {
			bad++;
			mon_viol("C12", "item-stalled", g_method,
				 "every thread is blocked (workers idle or absent) and item %d of owner %d is incomplete: work ran %d time(s), completion %d time(s)",
				 i, it->pool, (int)it->works, (int)it->completions);
		}
	}
}

static void scn_quiescent_check(void)
{
	int i, n = nitems, o;

	for (i = 0; i < n; i++) {
		struct item *it = &items[i];
		if (!it->submitted)
			continue;
		if (atomic_load(&create_failures)) {
			/* a worker could not be started: completion is not owed (C12/C13 are not quantified over that fault); exactly-once still is */
			if (it->works > 1 || it->completions > 1 || it->completions > it->works)
				mon_viol("C12", "item-twice-under-fault", g_method, "item %d: work ran %d time(s), completion %d time(s)", i, (int)it->works, (int)it->completions);
			continue;
		}
		S.obligations++;
		if (it->works != 1 || it->completions != 1) {
			mon_viol("C12", "item-incomplete", g_method,
				 "every thread is blocked and item %d (pool of owner %d) is incomplete: work ran %d time(s), completion %d time(s)",
				 i, it->pool, (int)it->works, (int)it->completions);
			if (it->pool >= 0 && pools[it->pool].put)
				mon_viol("C13", "item-lost-at-shutdown", g_method, "item %d was submitted before iv_work_pool_put and never completed (work %d, completion %d)",
					 i, (int)it->works, (int)it->completions);
		} else {
			S.discharged++;
		}
	}
	for (o = 0; o < nloops; o++) {
		struct pool *p = &pools[o];
		/* nothing is scheduled any more, so every idle time-out has expired: all workers must have stopped */
		if (p->starts != p->stops)
			mon_viol("C13", "worker-never-stopped", g_method, "pool of owner %d: %d thread-start hooks but %d thread-stop hooks when nothing can happen any more",
				 o, (int)p->starts, (int)p->stops);
	}
}

static void scn_dead_end(void)
{
	mon_viol("C13", "hang-after-put", g_method, "the pool was released and everything else unregistered, but an owner's iv_main never returns (loop references not dropped)");
	mon_viol("C07", "hang-after-teardown", g_method, "tear-down was requested but a loop thread stays blocked for ever");
}

static void run_case(long id, uint64_t seed)
{
	struct rng r;
	int nl, i;
	uint64_t cs;
	long w = 0, c = 0;

	mon_case_id = id;
	mon_viol_case = 0;
	mon_watchdog(120);
	cs = mix64(seed ^ (uint64_t)id * 0x9E3779B97F4A7C15ULL);
	rng_seed(&r, seed, (uint64_t)id);
	vt_reset_case(cs);
	vt_set_single(0);
	atomic_store(&nitems, 0);
	atomic_store(&ilv_hash, 0x55);
	S.create_failures += atomic_exchange(&create_failures, 0);
	if (g_tc_fault) {
		/* the k-th thread the library tries to create in this case cannot be created (once, or from then on) */
		char plan[64];
		snprintf(plan, sizeof(plan), "thread_create:EAGAIN@%u%s", 1 + rng_n(&r, 6), rng_pct(&r, 40) ? "+" : "");
		vt_fault_clear();
		vt_fault_plan(plan);
	}
	nl = 1 + (int)rng_pct(&r, 30);
	mt_start_loops(nl, cs);
	mt_join_loops();
	mt_check_thread_fds(g_method);

	if (n_thr_created != n_thr_joined + n_thr_detached)
		mon_viol("C13", "thread-not-joined", g_method, "%ld threads created, %ld joined, %ld detached at the end of the case",
			 (long)n_thr_created, (long)n_thr_joined, (long)n_thr_detached);
	for (i = 0; i < nitems; i++) {
		w += items[i].works;
		c += items[i].completions;
		if (items[i].wi != NULL) {	/* never completed: reported above; release it */
			free(items[i].wi);
			items[i].wi = NULL;
		}
	}
	S.cases++;
	S.items += nitems; S.works += w; S.completions += c;
	for (i = 0; i < nl; i++) {
		S.starts += pools[i].starts; S.stops += pools[i].stops;
		if ((uint64_t)pools[i].max_seen > S.max_concurrent)
			S.max_concurrent = pools[i].max_seen;
		pthread_mutex_destroy(&pools[i].mtx);
	}
	mon_printf("CASE id=%ld trace=%016llx nt=%d owners=%d items=%d works=%ld completions=%ld starts=%d viol=%d\n", id,
		   (unsigned long long)atomic_load(&ilv_hash), nitems > 0, nl, (int)nitems, w, c, (int)(pools[0].starts + (nl > 1 ? pools[1].starts : 0)), mon_viol_case);
	if (id % 53 == 0)
		mon_printf("SAMPLE case=%ld method=%s owners=%d max_threads=%d items=%d (work runs %ld, completions %ld) worker_starts=%d worker_stops=%d max_concurrent_seen=%d put=%d children=%d\n",
			   id, g_method, nl, pools[0].max_threads, (int)nitems, w, c, (int)pools[0].starts, (int)pools[0].stops, (int)pools[0].max_seen,
			   (int)pools[0].put, (int)pools[0].children_created);
}

int main(int argc, char **argv)
{
	long first = arg_ll(argc, argv, "--first", 0), n = arg_ll(argc, argv, "--cases", 50), i;
	uint64_t seed = (uint64_t)arg_ll(argc, argv, "--seed", 1);

	g_prop = arg_str(argc, argv, "--prop", "C12");
	g_tc_fault = (int)arg_ll(argc, argv, "--tc-fault", 0);
	vt_init();
	vt_set_perturb((int)arg_ll(argc, argv, "--perturb", 1));
	iv_set_fatal_msg_handler(mt_fatal);
	signal(SIGPIPE, SIG_IGN);
	mt_learn_method();
	for (i = first; i < first + n; i++)
		run_case(i, seed);
	mon_printf("STAT method=%s cases=%llu items=%llu work_runs=%llu completions=%llu continuations=%llu submitted_from_completion=%llu null_pool_items=%llu "
		   "bursts=%llu pool_puts=%llu puts_while_work_running=%llu puts_from_completion=%llu worker_starts=%llu worker_stops=%llu max_concurrent=%llu "
		   "iv_thread_children=%llu obligations=%llu discharged=%llu threads_created=%llu thread_create_failures_injected=%llu submits_with_no_worker_alive=%llu priority_deferrals=%llu shim_quiescences=%llu time_advances=%llu violations=%d\n",
		   g_method, (unsigned long long)S.cases, (unsigned long long)S.items, (unsigned long long)S.works, (unsigned long long)S.completions,
		   (unsigned long long)S.continuations, (unsigned long long)S.from_completion, (unsigned long long)S.null_items,
		   (unsigned long long)S.bursts, (unsigned long long)S.puts, (unsigned long long)S.puts_busy, (unsigned long long)S.puts_from_completion,
		   (unsigned long long)S.starts, (unsigned long long)S.stops, (unsigned long long)S.max_concurrent, (unsigned long long)S.children,
		   (unsigned long long)S.obligations, (unsigned long long)S.discharged, (unsigned long long)vt_stats.threads_created, (unsigned long long)(S.create_failures + create_failures), (unsigned long long)S.submits_without_worker,
		   (unsigned long long)vt_stats.pct_deferrals, (unsigned long long)vt_stats.quiescences, (unsigned long long)vt_stats.time_advances, mon_viol_total);
	mon_printf("DONE\n");
	return 0;
}
