/*
 * race.c - C14: the cross-thread entry points have no unsynchronised conflicting accesses.
 *
 * Built with -fsanitize=thread, linked with the library objects and NO system-call shim, no
 * monitor, no event log: free-running multi-thread scenarios whose only shared harness state is
 * a handful of C11 atomics and the pthread join/barrier calls that start and end a scenario, so
 * that the harness adds (almost) no happens-before edges that could hide a race in the library.
 * ThreadSanitizer's reports are collected from its log files and classified by ./check.
 * See DESIGN.md 3 C14.
 *
 *   race --scn <events|raw|work|signals|children|loops|threads|all> --rounds N --seed S
 */
#ifndef _GNU_SOURCE
#define _GNU_SOURCE
#endif
#include <errno.h>
#include <pthread.h>
#include <signal.h>
#include <stdatomic.h>
#include <stdio.h>
#include <stdlib.h>
#include <string.h>
#include <unistd.h>
#include <sys/wait.h>
#include <iv.h>
#include <iv_event.h>
#include <iv_event_raw.h>
#include <iv_signal.h>
#include <iv_thread.h>
#include <iv_wait.h>
#include <iv_work.h>
#include <iv_inotify.h>
#include <sys/stat.h>
#include <fcntl.h>

static _Atomic unsigned long long cnt_posts, cnt_rawposts, cnt_items, cnt_signals, cnt_children, cnt_loops, cnt_threads, cnt_handler;
#define CNT(x, n) atomic_fetch_add_explicit(&(x), (n), memory_order_relaxed)
static _Atomic unsigned long long a_handler;
static uint64_t g_seed = 1;
/* a poster's last post is its "done" event; this flag gives ThreadSanitizer the happens-before edge that the kernel object
 * (eventfd / epoll kick) provides in reality, so that the tear-down after the last "done" is ordered after every earlier post */
static _Atomic int done_flag[8];

/*
 * ThreadSanitizer runs an asynchronous signal handler at once only when the thread sits in a blocking call that it
 * intercepts; this libtsan does not intercept epoll_pwait2(), so a loop blocked there would get its signal handlers
 * run "at the next interceptor", i.e. never.  Make the library fall back to epoll_wait(), which is intercepted.
 */
int __wrap_epoll_pwait2(int epfd, void *ev, int maxev, const void *to, const void *mask)
{
	(void)epfd; (void)ev; (void)maxev; (void)to; (void)mask;
	errno = ENOSYS;
	return -1;
}

static inline uint64_t rnd(uint64_t *s) { uint64_t x = *s; x ^= x << 13; x ^= x >> 7; x ^= x << 17; return *s = x; }

/* ================================================================== events */
#define NEV 6
#define NPOST 4
struct evscn {
	struct iv_event	perm[NEV];		/* posted by everybody, all the time */
	struct iv_event	*victim;		/* registered by the owner, posted once by a poster, unregistered while (possibly) pending */
	_Atomic int	victim_state;		/* 0 none, 1 registered & may be posted once, 2 was posted */
	struct iv_event	done[NPOST];
	int		ndone;
	int		victims_left;
	int		self_left;		/* posts the owner still makes to its own events from its handlers (same queue as the remote posts) */
	unsigned	self_rot;
	pthread_barrier_t bar;
	int		nposts;
};
static struct evscn E;

static void ev_perm_cb(void *c)
{
	(void)c;
	atomic_fetch_add_explicit(&a_handler, 1, memory_order_relaxed);
	/* the owner unregisters another event, which a poster may have posted meanwhile, while posts of the permanent events keep arriving */
	if (atomic_load(&E.victim_state) == 2) {
		iv_event_unregister(E.victim);
		free(E.victim);
		E.victim = NULL;
		atomic_store(&E.victim_state, 0);
	}
	if (E.victim == NULL && E.victims_left > 0) {
		E.victims_left--;
		E.victim = malloc(sizeof(struct iv_event));
		IV_EVENT_INIT(E.victim);
		E.victim->cookie = NULL;
		E.victim->handler = ev_perm_cb;
		iv_event_register(E.victim);
		atomic_store(&E.victim_state, 1);
	}
	/* the owner posts to its own loop while the remote posts keep arriving */
	if (E.self_left > 0 && (++E.self_rot & 1)) {
		E.self_left--;
		iv_event_post(&E.perm[E.self_rot % NEV]);
		CNT(cnt_posts, 1);
	}
}

static void ev_teardown(void)
{
	int i;
	if (E.victim != NULL) {
		iv_event_unregister(E.victim);
		free(E.victim);
		E.victim = NULL;
	}
	for (i = 0; i < NEV; i++)
		iv_event_unregister(&E.perm[i]);
	for (i = 0; i < NPOST; i++)
		iv_event_unregister(&E.done[i]);
}

static void ev_done_cb(void *c)
{
	(void)c;
	if (++E.ndone == NPOST) {
		int k;
		for (k = 0; k < NPOST; k++)
			while (!atomic_load_explicit(&done_flag[k], memory_order_acquire))
				;
		/* every poster has finished (its "done" post is its last): nothing is posted any more */
		atomic_store(&E.victim_state, 3);
		iv_quit();	/* the events are unregistered after the posters were joined: their last post is ordered before that by the join */
	}
}

static void *ev_poster(void *v)
{
	long id = (long)v;
	uint64_t s = g_seed * 77 + id;
	int k;

	pthread_barrier_wait(&E.bar);
	for (k = 0; k < E.nposts; k++) {
		int exp = 1;
		iv_event_post(&E.perm[rnd(&s) % NEV]);
		if ((rnd(&s) & 3) == 0 && atomic_compare_exchange_strong(&E.victim_state, &exp, 4)) {
			/* exactly one post to the victim, by exactly one poster; the owner unregisters it only afterwards */
			iv_event_post(E.victim);
			atomic_store(&E.victim_state, 2);
		}
		if ((rnd(&s) & 15) == 0)
			sched_yield();
	}
	atomic_store_explicit(&done_flag[id], 1, memory_order_release);
	iv_event_post(&E.done[id]);
	return NULL;
}

static void scn_events(int nposts)
{
	pthread_t th[NPOST];
	long i;

	memset(&E, 0, sizeof(E));
	for (i = 0; i < 8; i++) atomic_store(&done_flag[i], 0);
	E.nposts = nposts;
	E.victims_left = 50;
	E.self_left = nposts;
	iv_init();
	for (i = 0; i < NEV; i++) {
		IV_EVENT_INIT(&E.perm[i]);
		E.perm[i].handler = ev_perm_cb;
		iv_event_register(&E.perm[i]);
	}
	for (i = 0; i < NPOST; i++) {
		IV_EVENT_INIT(&E.done[i]);
		E.done[i].handler = ev_done_cb;
		iv_event_register(&E.done[i]);
	}
	pthread_barrier_init(&E.bar, NULL, NPOST + 1);
	for (i = 0; i < NPOST; i++)
		pthread_create(&th[i], NULL, ev_poster, (void *)i);
	pthread_barrier_wait(&E.bar);
	iv_main();
	for (i = 0; i < NPOST; i++)
		pthread_join(th[i], NULL);
	ev_teardown();
	pthread_barrier_destroy(&E.bar);
	iv_deinit();
	CNT(cnt_posts, (unsigned long long)nposts * NPOST);
}

/* ================================================================== raw events */
struct rawscn { struct iv_event_raw r[3]; struct iv_event_raw done[NPOST]; int ndone; pthread_barrier_t bar; int nposts; };
static struct rawscn RW;

static void raw_cb(void *c) { (void)c; atomic_fetch_add_explicit(&a_handler, 1, memory_order_relaxed); }
static void raw_done_cb(void *c)
{
	int i;
	(void)c;
	if (++RW.ndone == NPOST) {
		int k;
		for (k = 0; k < NPOST; k++)
			while (!atomic_load_explicit(&done_flag[k], memory_order_acquire))
				;
		for (i = 0; i < 3; i++) iv_event_raw_unregister(&RW.r[i]);
		iv_quit();	/* the "done" objects are unregistered after the posters were joined */
	}
}
static void *raw_poster(void *v)
{
	long id = (long)v;
	uint64_t s = g_seed * 99 + id;
	int k;
	pthread_barrier_wait(&RW.bar);
	for (k = 0; k < RW.nposts; k++)
		iv_event_raw_post(&RW.r[rnd(&s) % 3]);
	atomic_store_explicit(&done_flag[id], 1, memory_order_release);
	iv_event_raw_post(&RW.done[id]);
	return NULL;
}
static void scn_raw(int nposts)
{
	pthread_t th[NPOST];
	long i;
	memset(&RW, 0, sizeof(RW));
	for (i = 0; i < 8; i++) atomic_store(&done_flag[i], 0);
	RW.nposts = nposts;
	iv_init();
	for (i = 0; i < 3; i++) { IV_EVENT_RAW_INIT(&RW.r[i]); RW.r[i].handler = raw_cb; iv_event_raw_register(&RW.r[i]); }
	for (i = 0; i < NPOST; i++) { IV_EVENT_RAW_INIT(&RW.done[i]); RW.done[i].handler = raw_done_cb; iv_event_raw_register(&RW.done[i]); }
	pthread_barrier_init(&RW.bar, NULL, NPOST + 1);
	for (i = 0; i < NPOST; i++) pthread_create(&th[i], NULL, raw_poster, (void *)i);
	pthread_barrier_wait(&RW.bar);
	iv_main();
	for (i = 0; i < NPOST; i++) pthread_join(th[i], NULL);
	for (i = 0; i < NPOST; i++) iv_event_raw_unregister(&RW.done[i]);
	pthread_barrier_destroy(&RW.bar);
	iv_deinit();
	CNT(cnt_rawposts, (unsigned long long)nposts * NPOST);
}

/* ================================================================== work pools */
struct witem { struct iv_work_item wi; int gen; };
static struct iv_work_pool *WP;
static int w_left, w_outstanding, w_put;
static _Atomic int w_cont_budget;

static void w_work(void *c)
{
	struct witem *it = c;
	/* continuation from the worker while the owner keeps submitting: allowed as long as the pool has not been released;
	 * the budget is consumed before the owner decides to release (it releases only when nothing is outstanding) */
	if (it->gen == 0 && atomic_fetch_sub(&w_cont_budget, 1) > 0) {
		struct witem *n = malloc(sizeof(*n));
		IV_WORK_ITEM_INIT(&n->wi);
		n->wi.cookie = n; n->wi.work = w_work;
		n->gen = 1;
		it->gen = 2;	/* "my completion accounts for a continuation" */
		extern void w_completion(void *);
		n->wi.completion = w_completion;
		iv_work_pool_submit_continuation(WP, &n->wi);
	}
}

static void w_submit_one(void)
{
	struct witem *n = malloc(sizeof(*n));
	extern void w_completion(void *);
	IV_WORK_ITEM_INIT(&n->wi);
	n->wi.cookie = n; n->wi.work = w_work; n->wi.completion = w_completion;
	n->gen = 0;
	w_outstanding++;
	iv_work_pool_submit_work(WP, &n->wi);
	CNT(cnt_items, 1);
}

void w_completion(void *c)
{
	struct witem *it = c;
	int spawned = it->gen == 2;
	free(it);
	if (spawned)
		CNT(cnt_items, 1);	/* its continuation is outstanding now instead */
	else
		w_outstanding--;
	if (w_left > 0) {
		int k = 1 + (w_left & 1);
		while (k-- > 0 && w_left > 0) {
			w_left--;
			w_submit_one();
		}
	}
	if (w_outstanding == 0 && !w_put) {
		w_put = 1;
		iv_work_pool_put(WP);
		free(WP);
		WP = NULL;
	}
}

static void scn_work(int nitems, int maxthr)
{
	int i;
	iv_init();
	WP = malloc(sizeof(*WP));
	IV_WORK_POOL_INIT(WP);
	WP->max_threads = maxthr;
	WP->cookie = NULL;
	iv_work_pool_create(WP);
	w_left = nitems; w_outstanding = 0; w_put = 0;
	atomic_store(&w_cont_budget, nitems / 3);
	for (i = 0; i < 8 && w_left > 0; i++) {
		w_left--;
		w_submit_one();
	}
	iv_main();
	iv_deinit();
}

/* ================================================================== signals */
#define NSIGT 3
struct sigscn { pthread_t th[NSIGT]; _Atomic int ready, stop, alive[NSIGT]; int rounds; };
static struct sigscn SG;
struct sigthr { struct iv_signal perm; struct iv_signal *tmp; struct iv_timer t; int left; int idx; };

static void sg_cb(void *c) { (void)c; atomic_fetch_add_explicit(&a_handler, 1, memory_order_relaxed); }

static void sg_tick(void *c)
{
	struct sigthr *st = c;
	/* register / unregister an interest for the signal the other threads are being bombarded with */
	if (st->tmp == NULL) {
		st->tmp = malloc(sizeof(struct iv_signal));
		IV_SIGNAL_INIT(st->tmp);
		st->tmp->signum = (st->left & 1) ? SIGUSR1 : SIGUSR2;
		st->tmp->flags = (st->left & 2) ? IV_SIGNAL_FLAG_EXCLUSIVE : 0;
		st->tmp->handler = sg_cb;
		iv_signal_register(st->tmp);
	} else {
		iv_signal_unregister(st->tmp);
		free(st->tmp);
		st->tmp = NULL;
	}
	if (--st->left > 0) {
		iv_validate_now();
		st->t.expires = iv_now;
		st->t.expires.tv_nsec += 200000;
		if (st->t.expires.tv_nsec >= 1000000000) { st->t.expires.tv_sec++; st->t.expires.tv_nsec -= 1000000000; }
		iv_timer_register(&st->t);
	} else {
		if (st->tmp != NULL) { iv_signal_unregister(st->tmp); free(st->tmp); st->tmp = NULL; }
		atomic_store(&SG.alive[st->idx], 0);
		/* the permanent interests stay until every thread is done, so that late signals always find a handler */
		while (atomic_load(&SG.alive[0]) || atomic_load(&SG.alive[1]) || atomic_load(&SG.alive[2]))
			sched_yield();
		atomic_store(&SG.stop, 1);
		usleep(2000);
		iv_signal_unregister(&st->perm);
	}
}

static void *sg_thread(void *v)
{
	struct sigthr st;
	memset(&st, 0, sizeof(st));
	st.idx = (int)(long)v;
	st.left = SG.rounds;
	iv_init();
	IV_SIGNAL_INIT(&st.perm);
	st.perm.signum = st.idx == 0 ? SIGUSR1 : SIGUSR2;
	st.perm.flags = 0;
	st.perm.handler = sg_cb;
	iv_signal_register(&st.perm);
	IV_TIMER_INIT(&st.t);
	st.t.cookie = &st;
	st.t.handler = sg_tick;
	iv_validate_now();
	st.t.expires = iv_now;
	iv_timer_register(&st.t);
	atomic_fetch_add(&SG.ready, 1);
	iv_main();
	iv_deinit();
	return NULL;
}

/*
 * One signal number is under fire per call (alternating between calls).  iv_signal installs its handler with a full
 * sa_mask, so the kernel never nests two of its handlers; libtsan however delivers a signal it deferred at the exit of
 * the next interceptor -- including pthread_spin_lock() called from inside the handler of a different signal -- and the
 * nested handler then spins on sig_lock, which its own thread holds.  That self-deadlock exists only under the tool.
 */
static void scn_signals(int rounds, int signum)
{
	long i;
	uint64_t s = g_seed * 5;
	struct iv_signal keep1, keep2;

	memset(&SG, 0, sizeof(SG));
	SG.rounds = rounds;
	/* the main thread keeps an interest for both signals for the whole scenario: the disposition never returns to SIG_DFL under fire */
	iv_init();
	IV_SIGNAL_INIT(&keep1); keep1.signum = SIGUSR1; keep1.flags = 0; keep1.handler = sg_cb; iv_signal_register(&keep1);
	IV_SIGNAL_INIT(&keep2); keep2.signum = SIGUSR2; keep2.flags = 0; keep2.handler = sg_cb; iv_signal_register(&keep2);
	for (i = 0; i < NSIGT; i++) {
		atomic_store(&SG.alive[i], 1);
		pthread_create(&SG.th[i], NULL, sg_thread, (void *)i);
	}
	while (atomic_load(&SG.ready) < NSIGT)
		sched_yield();
	while (!atomic_load(&SG.stop)) {
		int t = rnd(&s) % NSIGT;
		if (atomic_load(&SG.alive[t])) {
			pthread_kill(SG.th[t], signum);
			CNT(cnt_signals, 1);
		}
		if ((rnd(&s) & 7) == 0)
			kill(getpid(), signum);
		usleep(50);
	}
	for (i = 0; i < NSIGT; i++)
		pthread_join(SG.th[i], NULL);
	iv_signal_unregister(&keep1);
	iv_signal_unregister(&keep2);
	iv_deinit();
}

/* ================================================================== children */
static _Atomic int ch_ready;
static void ch_fn(void *c) { (void)c; _exit(5); }

/* each thread owns its interests; the SIGCHLD reaper is whichever thread's exclusive interest comes first */
struct cthr2 { int left; struct iv_wait_interest *wi[4]; struct iv_timer pro_t; int pro_left; struct iv_wait_interest *pro; uint64_t rs; };
static void ch_fn_sleep(void *c) { (void)c; for (;;) pause(); }
static void c2_spawn(struct cthr2 *t, int i);
static void c2_cb(void *cookie, int status, const struct rusage *ru)
{
	void **ck = cookie;
	struct cthr2 *t = ck[0];
	int i = (int)(long)ck[1];
	(void)ru;
	if (!(WIFEXITED(status) || WIFSIGNALED(status)))
		return;
	iv_wait_interest_unregister(t->wi[i]);
	free(t->wi[i]->cookie);
	free(t->wi[i]);
	t->wi[i] = NULL;
	if (t->left > 0) {
		t->left--;
		c2_spawn(t, i);
	}
}
static void c2_spawn(struct cthr2 *t, int i)
{
	void **ck = malloc(2 * sizeof(void *));
	t->wi[i] = malloc(sizeof(struct iv_wait_interest));
	IV_WAIT_INTEREST_INIT(t->wi[i]);
	ck[0] = t; ck[1] = (void *)(long)i;
	t->wi[i]->cookie = ck;
	t->wi[i]->handler = c2_cb;
	iv_wait_interest_register_spawn(t->wi[i], ch_fn, NULL);
	CNT(cnt_children, 1);
}
/* an interest that its owner unregisters on its own initiative, right after killing the child: the unregistration
 * overlaps with the reaper (possibly another thread) noticing the death */
static void c2_pro_cb(void *cookie, int status, const struct rusage *ru) { (void)cookie; (void)status; (void)ru; }
static void c2_pro_tick(void *c)
{
	struct cthr2 *t = c;
	if (t->pro != NULL) {
		int spin = (int)(rnd(&t->rs) % 400);
		int k;
		iv_wait_interest_kill(t->pro, SIGKILL);
		while (spin-- > 0)
			sched_yield();
		/* the kill helper again, while the reaper (possibly another thread) notices the death and marks the interest */
		iv_wait_interest_kill(t->pro, 0);
		for (k = 0; k < 4; k++)
			if (t->wi[k] != NULL)
				iv_wait_interest_kill(t->wi[k], 0);	/* these children exit at once: their death is being reaped about now */
		iv_wait_interest_unregister(t->pro);
		free(t->pro);
		t->pro = NULL;
	}
	if (t->pro_left-- > 0) {
		t->pro = malloc(sizeof(struct iv_wait_interest));
		IV_WAIT_INTEREST_INIT(t->pro);
		t->pro->cookie = t;
		t->pro->handler = c2_pro_cb;
		iv_wait_interest_register_spawn(t->pro, ch_fn_sleep, NULL);
		CNT(cnt_children, 1);
		iv_validate_now();
		t->pro_t.expires = iv_now;
		t->pro_t.expires.tv_nsec += 100000 + (long)(rnd(&t->rs) % 300000);
		if (t->pro_t.expires.tv_nsec >= 1000000000) { t->pro_t.expires.tv_sec++; t->pro_t.expires.tv_nsec -= 1000000000; }
		iv_timer_register(&t->pro_t);
	}
}

static void *c2_thread(void *v)
{
	struct cthr2 t;
	int i;
	memset(&t, 0, sizeof(t));
	t.left = (int)(long)v;
	t.rs = g_seed * 31 + (uint64_t)(uintptr_t)&t;
	t.pro_left = t.left;
	iv_init();
	for (i = 0; i < 4; i++)
		c2_spawn(&t, i);
	IV_TIMER_INIT(&t.pro_t);
	t.pro_t.cookie = &t;
	t.pro_t.handler = c2_pro_tick;
	iv_validate_now();
	t.pro_t.expires = iv_now;
	iv_timer_register(&t.pro_t);
	atomic_fetch_add(&ch_ready, 1);
	iv_main();
	iv_deinit();
	return NULL;
}
static void scn_children(int per_thread)
{
	pthread_t th[3];
	long i;
	atomic_store(&ch_ready, 0);
	iv_init();		/* the first iv_init completes before the others start */
	iv_deinit();
	for (i = 0; i < 3; i++)
		pthread_create(&th[i], NULL, c2_thread, (void *)(long)per_thread);
	for (i = 0; i < 3; i++)
		pthread_join(th[i], NULL);
}

/* ================================================================== independent loops + iv_thread churn */
static void lp_timer(void *c) { (void)c; }
static void *lp_thread(void *v)
{
	int n = (int)(long)v, k;
	for (k = 0; k < n; k++) {
		struct iv_timer t;
		struct iv_task tk;
		struct iv_event ev;
		iv_init();
		IV_TIMER_INIT(&t); t.handler = lp_timer; iv_validate_now(); t.expires = iv_now; iv_timer_register(&t);
		IV_TASK_INIT(&tk); tk.handler = lp_timer; iv_task_register(&tk);
		IV_EVENT_INIT(&ev); ev.handler = lp_timer; iv_event_register(&ev); iv_event_post(&ev);
		iv_event_unregister(&ev);
		iv_main();
		iv_deinit();
		CNT(cnt_loops, 1);
	}
	return NULL;
}
static void scn_loops(int per_thread)
{
	pthread_t th[6];
	long i;
	iv_init();		/* the first iv_init completes before the others start */
	iv_deinit();
	for (i = 0; i < 6; i++) pthread_create(&th[i], NULL, lp_thread, (void *)(long)per_thread);
	for (i = 0; i < 6; i++) pthread_join(th[i], NULL);
}

static void thr_child(void *c)
{
	long style = (long)c;
	if (style & 1) {
		struct iv_timer t;
		iv_init();
		IV_TIMER_INIT(&t); t.handler = lp_timer; iv_validate_now(); t.expires = iv_now; t.expires.tv_nsec += 100000;
		if (t.expires.tv_nsec >= 1000000000) { t.expires.tv_sec++; t.expires.tv_nsec -= 1000000000; }
		iv_timer_register(&t);
		iv_main();
		if (style & 2)
			iv_deinit();
	}
	CNT(cnt_handler, 1);
}
static int thr_left;
static struct iv_timer thr_t;
static void thr_tick(void *c)
{
	int k;
	(void)c;
	for (k = 0; k < 4 && thr_left > 0; k++, thr_left--) {
		iv_thread_create("t", thr_child, (void *)(long)(thr_left & 3));
		CNT(cnt_threads, 1);
	}
	if (thr_left > 0) {
		iv_validate_now();
		thr_t.expires = iv_now;
		thr_t.expires.tv_nsec += 300000;
		if (thr_t.expires.tv_nsec >= 1000000000) { thr_t.expires.tv_sec++; thr_t.expires.tv_nsec -= 1000000000; }
		iv_timer_register(&thr_t);
	}
}
static void scn_threads(int n)
{
	iv_init();
	thr_left = n;
	IV_TIMER_INIT(&thr_t);
	thr_t.handler = thr_tick;
	iv_validate_now();
	thr_t.expires = iv_now;
	iv_timer_register(&thr_t);
	iv_main();
	iv_deinit();
}


/* ================================================================== work pool whose workers all retire at their idle time-out (10 s of real time) */
static int wi_done, wi_phase;
static struct iv_timer wi_t;
static struct witem wi_items[8];
static void wi_work(void *c) { (void)c; usleep(2000); }
static void wi_completion(void *c)
{
	(void)c;
	wi_done++;
	if (wi_phase == 1 && wi_done == 5) {
		iv_work_pool_put(WP);
		free(WP);
		WP = NULL;
	}
}
static void wi_late(void *c)
{
	(void)c;
	/* every worker has been idle for more than ten seconds: they retire together, while this submission may need a new one */
	wi_phase = 1;
	IV_WORK_ITEM_INIT(&wi_items[4].wi);
	wi_items[4].wi.cookie = &wi_items[4]; wi_items[4].wi.work = wi_work; wi_items[4].wi.completion = wi_completion;
	iv_work_pool_submit_work(WP, &wi_items[4].wi);
	CNT(cnt_items, 1);
}
static void scn_workidle(void)
{
	int i;
	alarm(100);
	iv_init();
	WP = malloc(sizeof(*WP));
	IV_WORK_POOL_INIT(WP);
	WP->max_threads = 4;
	WP->cookie = NULL;
	iv_work_pool_create(WP);
	wi_done = 0; wi_phase = 0;
	for (i = 0; i < 4; i++) {
		IV_WORK_ITEM_INIT(&wi_items[i].wi);
		wi_items[i].wi.cookie = &wi_items[i]; wi_items[i].wi.work = wi_work; wi_items[i].wi.completion = wi_completion;
		iv_work_pool_submit_work(WP, &wi_items[i].wi);
		CNT(cnt_items, 1);
	}
	IV_TIMER_INIT(&wi_t);
	wi_t.handler = wi_late;
	iv_validate_now();
	wi_t.expires = iv_now;
	wi_t.expires.tv_sec += 10;
	wi_t.expires.tv_nsec += 1000000 * (long)(g_seed % 30);	/* right around the moment the idle timers fire */
	if (wi_t.expires.tv_nsec >= 1000000000) { wi_t.expires.tv_sec++; wi_t.expires.tv_nsec -= 1000000000; }
	iv_timer_register(&wi_t);
	iv_main();
	iv_deinit();
}

/* ================================================================== two threads fork at overlapping times, each with its own signal mask */
static _Atomic int fm_stop;
static _Atomic long fm_bad;
static void fm_nop(void *c) { (void)c; _exit(0); }
struct fm_thr { int left; struct iv_wait_interest *wi; sigset_t want; };
static void fm_check(const sigset_t *want, const char *who)
{
	sigset_t cur;
	int s;
	pthread_sigmask(SIG_SETMASK, NULL, &cur);
	for (s = 1; s < 32; s++)
		if (sigismember(&cur, s) != sigismember(want, s)) {
			if (atomic_fetch_add(&fm_bad, 1) == 0)
				printf("FUNCVIOL key=signal-mask-changed-by-fork :: %s: after a fork the thread's signal mask differs from before in signal %d (blocked now: %d)\n", who, s, sigismember(&cur, s));
			pthread_sigmask(SIG_SETMASK, want, NULL);
			return;
		}
}
static void fm_spawn(struct fm_thr *t);
static void fm_cb(void *cookie, int status, const struct rusage *ru)
{
	struct fm_thr *t = cookie;
	(void)ru;
	if (!(WIFEXITED(status) || WIFSIGNALED(status)))
		return;
	iv_wait_interest_unregister(t->wi);
	free(t->wi);
	t->wi = NULL;
	if (--t->left > 0)
		fm_spawn(t);
	else
		atomic_store(&fm_stop, 1);
}
static void fm_spawn(struct fm_thr *t)
{
	t->wi = malloc(sizeof(*t->wi));
	IV_WAIT_INTEREST_INIT(t->wi);
	t->wi->cookie = t;
	t->wi->handler = fm_cb;
	iv_wait_interest_register_spawn(t->wi, fm_nop, NULL);
	fm_check(&t->want, "the thread that spawns through the library");
	CNT(cnt_children, 1);
}
static void *fm_forker(void *v)
{
	sigset_t want;
	(void)v;
	sigemptyset(&want);
	sigaddset(&want, SIGUSR2);
	pthread_sigmask(SIG_SETMASK, &want, NULL);
	while (!atomic_load(&fm_stop)) {
		pid_t p = fork();
		if (p == 0)
			_exit(0);
		fm_check(&want, "the thread that calls fork()");
		if (p > 0) {
			int st;
			while (waitpid(p, &st, 0) < 0 && errno == EINTR)
				;
		}
	}
	return NULL;
}
static void scn_forkmask(int n)
{
	struct fm_thr t;
	pthread_t th;
	sigset_t old;
	memset(&t, 0, sizeof(t));
	t.left = n;
	atomic_store(&fm_stop, 0);
	iv_init();
	sigemptyset(&t.want);
	sigaddset(&t.want, SIGUSR1);
	pthread_sigmask(SIG_SETMASK, &t.want, &old);
	pthread_create(&th, NULL, fm_forker, NULL);
	fm_spawn(&t);
	iv_main();
	atomic_store(&fm_stop, 1);
	pthread_join(th, NULL);
	pthread_sigmask(SIG_SETMASK, &old, NULL);
	iv_deinit();
}

/* ================================================================== two threads, each with its own inotify instance */
struct in_thr { int idx; char dir[128]; struct iv_inotify in; struct iv_inotify_watch w; struct iv_timer t; int rounds, seen, made; };
static void in_ev(void *cookie, struct inotify_event *ev)
{
	struct in_thr *t = cookie;
	t->seen++;
	/* every name in this directory starts with the thread's own letter */
	if (ev->len > 0 && ev->name[0] != (char)('a' + t->idx) && atomic_fetch_add(&fm_bad, 1) == 0)
		printf("FUNCVIOL key=inotify-event-misrouted :: the watch of thread %d got an event for '%s', a file of another thread's directory\n", t->idx, ev->name);
}
static void in_tick(void *c)
{
	struct in_thr *t = c;
	char p[192];
	int k;
	for (k = 0; k < 24; k++) {
		int fd;
		snprintf(p, sizeof(p), "%s/%c%d_%d", t->dir, 'a' + t->idx, t->rounds, k);
		fd = open(p, O_CREAT | O_WRONLY, 0600);
		if (fd >= 0) close(fd);
		unlink(p);
		t->made += 2;
	}
	if (--t->rounds > 0) {
		iv_validate_now();
		t->t.expires = iv_now;
		t->t.expires.tv_nsec += 200000;
		if (t->t.expires.tv_nsec >= 1000000000) { t->t.expires.tv_sec++; t->t.expires.tv_nsec -= 1000000000; }
		iv_timer_register(&t->t);
	} else {
		iv_inotify_watch_unregister(&t->w);
		iv_inotify_unregister(&t->in);
	}
}
static void *in_thread(void *v)
{
	struct in_thr *t = v;
	iv_init();
	IV_INOTIFY_INIT(&t->in);
	if (iv_inotify_register(&t->in) == 0) {
		IV_INOTIFY_WATCH_INIT(&t->w);
		t->w.inotify = &t->in;
		t->w.pathname = t->dir;
		t->w.mask = IN_CREATE | IN_DELETE;
		t->w.cookie = t;
		t->w.handler = in_ev;
		if (iv_inotify_watch_register(&t->w) == 0) {
			IV_TIMER_INIT(&t->t);
			t->t.cookie = t;
			t->t.handler = in_tick;
			iv_validate_now();
			t->t.expires = iv_now;
			iv_timer_register(&t->t);
			iv_main();
		} else {
			iv_inotify_unregister(&t->in);
		}
	}
	iv_deinit();
	return NULL;
}
static void scn_inotify(int rounds)
{
	struct in_thr t[3];
	pthread_t th[3];
	const char *tmp = getenv("TMPDIR");
	int i;
	iv_init();
	iv_deinit();
	memset(t, 0, sizeof(t));
	for (i = 0; i < 3; i++) {
		t[i].idx = i;
		t[i].rounds = rounds;
		snprintf(t[i].dir, sizeof(t[i].dir), "%s/ivrace.%d.%d", tmp && *tmp ? tmp : "/tmp", (int)getpid(), i);
		mkdir(t[i].dir, 0700);
		pthread_create(&th[i], NULL, in_thread, &t[i]);
	}
	for (i = 0; i < 3; i++) {
		pthread_join(th[i], NULL);
		rmdir(t[i].dir);
		CNT(cnt_loops, 1);
	}
}

static const char *argstr(int argc, char **argv, const char *n, const char *d)
{
	int i;
	for (i = 1; i + 1 < argc; i++)
		if (!strcmp(argv[i], n))
			return argv[i + 1];
	return d;
}

int main(int argc, char **argv)
{
	const char *scn = argstr(argc, argv, "--scn", "all");
	int rounds = atoi(argstr(argc, argv, "--rounds", "3")), r;
	int all = !strcmp(scn, "all");

	g_seed = strtoull(argstr(argc, argv, "--seed", "1"), NULL, 0);
	signal(SIGPIPE, SIG_IGN);
	alarm(100);	/* generous watchdog: a hang ends the process (reported as inconclusive by the driver) */
	for (r = 0; r < rounds; r++) {
		g_seed = g_seed * 6364136223846793005ULL + 1442695040888963407ULL;
#define RUN(name, call) do { if (all || !strcmp(scn, name)) { printf("BEGIN %s round=%d\n", name, r); fflush(stdout); call; } } while (0)
		RUN("events", scn_events(1500));
		RUN("raw", scn_raw(1500));
		RUN("work", (scn_work(300, 1 + r % 4), scn_work(200, 8)));
		RUN("signals", scn_signals(60, (r & 1) ? SIGUSR1 : SIGUSR2));
		RUN("children", scn_children(6));
		RUN("loops", scn_loops(15));
		RUN("threads", scn_threads(24));
		RUN("inotify", scn_inotify(12));
		/* not part of "all": long (real idle time-out) or fork-heavy */
		if (!strcmp(scn, "workidle")) { printf("BEGIN workidle round=%d\n", r); fflush(stdout); scn_workidle(); }
		if (!strcmp(scn, "forkmask")) { printf("BEGIN forkmask round=%d\n", r); fflush(stdout); scn_forkmask(2500); }
	}
	printf("STAT scn=%s rounds=%d event_posts=%llu raw_posts=%llu work_items=%llu signals_sent=%llu children=%llu loop_cycles=%llu iv_threads=%llu handler_runs=%llu\n",
	       scn, rounds, (unsigned long long)cnt_posts, (unsigned long long)cnt_rawposts, (unsigned long long)cnt_items, (unsigned long long)cnt_signals,
	       (unsigned long long)cnt_children, (unsigned long long)cnt_loops, (unsigned long long)cnt_threads, (unsigned long long)atomic_load(&a_handler));
	printf("DONE\n");
	fflush(stdout);
	return 0;
}
