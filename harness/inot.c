/*
 * inot.c - C20: iv_inotify routes every event to the watch whose descriptor it carries, in kernel
 * order; kernel-removed and one-shot watches are dropped before their handler runs; unregistering
 * a watch, other watches or the whole instance from a handler is safe and suppresses the rest.
 *
 * Ground truth: the exact bytes each read(2) on the inotify descriptor returned (seen by the shim),
 * parsed independently here.  Watches and the instance are individually malloc()ed and freed at the
 * moment the documentation allows (ASan).  See DESIGN.md 3 C20.
 */
#ifndef _GNU_SOURCE
#define _GNU_SOURCE
#endif
#include <errno.h>
#include <fcntl.h>
#include <limits.h>
#include <signal.h>
#include <stdio.h>
#include <stdlib.h>
#include <string.h>
#include <unistd.h>
#include <sys/inotify.h>
#include <sys/stat.h>
#include <iv.h>
#include <iv_inotify.h>
#include "vt.h"
#include "mon.h"

static struct rng R;
static const char *g_method = "?";
static char base[PATH_MAX];

#define MAXW 24
struct wsh {
	struct iv_inotify_watch	*w;	/* NULL once freed */
	char		*path;
	int		wd;
	int		registered;	/* shadow: in the instance's set */
	int		oneshot;
	int		kernel_oneshot;	/* a refused registration with a one-shot mask replaced the kernel's mask of this watch */
	int		is_dir;
	long		deliveries;
};
static struct wsh ws[MAXW];
static int nws;
static struct iv_inotify *inst;
static int inst_registered;
static int inot_fd = -1;

/* expected events: parsed from the bytes the library read */
#define MAXE 4096
struct xev { int wd; uint32_t mask, cookie, len; char name[64]; };
static struct xev *expq;
static int nexp, exp_checked;
/* delivered log */
struct dev { int widx; struct xev e; int act; int act_target; };
static struct dev *dlog;
static int ndel, del_checked;
static int actions_plan[MAXE];		/* what the handler does at the n-th delivery of the case */
static int teardown_sent;
static int ctl[2];
static struct iv_fd ctl_fd;

enum { ACT_NONE, ACT_UNREG_SELF, ACT_UNREG_OTHER, ACT_UNREG_INSTANCE, ACT_UNREG_ALL_WATCHES };

static struct {
	uint64_t cases, reads, events_parsed, deliveries_checked, multi_event_reads, named_events, unreg_self, unreg_other, unreg_instance,
		 oneshot_drops, ignored_drops, suppressed, never_read_instances, max_events_in_read, kernel_set_checks, refused_registrations, oneshot_only_instances, term_checks;
} S;

void hk_inotify_init(int fd) { inot_fd = fd; }

void hk_read(int fd, const void *buf, size_t n, long ret, int err)
{
	const char *p = buf, *end;
	int cnt = 0;
	(void)n; (void)err;
	if (fd != inot_fd || fd < 0 || ret <= 0)
		return;
	S.reads++;
	end = p + ret;
	while (p + sizeof(struct inotify_event) <= end) {
		const struct inotify_event *ie = (const void *)p;
		struct xev *x;
		if (nexp == MAXE)
			break;
		x = &expq[nexp++];
		x->wd = ie->wd; x->mask = ie->mask; x->cookie = ie->cookie; x->len = ie->len;
		x->name[0] = 0;
		if (ie->len) {
			strncpy(x->name, ie->name, sizeof(x->name) - 1);
			x->name[sizeof(x->name) - 1] = 0;
			S.named_events++;
		}
		p += sizeof(struct inotify_event) + ie->len;
		cnt++;
		S.events_parsed++;
	}
	if (cnt > 1)
		S.multi_event_reads++;
	if ((uint64_t)cnt > S.max_events_in_read)
		S.max_events_in_read = cnt;
}

void hk_close(int fd) { if (fd == inot_fd) inot_fd = -1; }

static int find_shadow_wd(int wd)
{
	int i;
	for (i = 0; i < nws; i++)
		if (ws[i].registered && ws[i].wd == wd)
			return i;
	return -1;
}

static void free_watch(int i)
{
	if (ws[i].w != NULL) {
		memset(ws[i].w, 0xDD, sizeof(*ws[i].w));
		free(ws[i].w);
		ws[i].w = NULL;
	}
}

static void unreg_watch(int i)
{
	if (!ws[i].registered || ws[i].w == NULL || !inst_registered)
		return;
	iv_inotify_watch_unregister(ws[i].w);
	ws[i].registered = 0;
	free_watch(i);
}

static void unreg_instance(void)
{
	int i;
	if (!inst_registered)
		return;
	iv_inotify_unregister(inst);
	inst_registered = 0;
	memset(inst, 0xDD, sizeof(*inst));
	free(inst);
	inst = NULL;
	for (i = 0; i < nws; i++) {	/* the watches went with the instance */
		ws[i].registered = 0;
		free_watch(i);
	}
}

static void watch_cb(void *cookie, struct inotify_event *ev)
{
	int i = (int)(uintptr_t)cookie - 1, act;
	struct dev *d;

	if (ndel == MAXE)
		return;
	d = &dlog[ndel];
	memset(d, 0, sizeof(*d));
	d->widx = i;
	d->e.wd = ev->wd; d->e.mask = ev->mask; d->e.cookie = ev->cookie; d->e.len = ev->len;
	if (ev->len) {
		strncpy(d->e.name, ev->name, sizeof(d->e.name) - 1);
	}
	act = actions_plan[ndel];
	d->act = ACT_NONE;
	ndel++;
	if (i < 0 || i >= nws || ws[i].w == NULL) {
		mon_viol("C20", "delivery-to-freed-watch", g_method, "handler invoked for watch slot %d which was unregistered / dropped and freed", i);
		mon_viol("C01", "stale-handler", "inotify", "inotify watch handler invoked after the watch was unregistered");
		return;
	}
	ws[i].deliveries++;
	/* one-shot and kernel-removed watches are gone now: free them inside their own handler */
	if ((ev->mask & IN_IGNORED) || ws[i].oneshot) {
		if (ev->mask & IN_IGNORED) S.ignored_drops++; else S.oneshot_drops++;
		ws[i].registered = 0;
		free_watch(i);
	}
	switch (act) {
	case ACT_UNREG_SELF:
		if (ws[i].registered) {
			unreg_watch(i);
			d->act = act;
			S.unreg_self++;
		}
		break;
	case ACT_UNREG_OTHER:
		{
			int j = (i + 1 + (int)rng_n(&R, nws > 1 ? nws - 1 : 1)) % nws;
			if (j != i && ws[j].registered) {
				unreg_watch(j);
				d->act = act;
				d->act_target = j;
				S.unreg_other++;
			}
		}
		break;
	case ACT_UNREG_ALL_WATCHES:
		{
			int j;
			for (j = 0; j < nws; j++)
				if (ws[j].registered)
					unreg_watch(j);
			d->act = act;
		}
		break;
	case ACT_UNREG_INSTANCE:
		unreg_instance();
		d->act = act;
		S.unreg_instance++;
		break;
	}
}

/* compare what was delivered with what the kernel handed over; replays the handlers' own unregistrations */
static int sim_reg[MAXW], sim_inst;

static void check_deliveries(int final)
{
	while (exp_checked < nexp) {
		struct xev *x = &expq[exp_checked];
		int i, w = -1;
		if (sim_inst) {
			for (i = 0; i < nws; i++)
				if (sim_reg[i] && ws[i].wd == x->wd)
					w = i;
		}
		exp_checked++;
		if (w < 0) {
			S.suppressed++;
			continue;	/* nobody is registered for it any more: it must not show up in the log (checked by the match below) */
		}
		if (del_checked >= ndel) {
			mon_viol("C20", "event-not-delivered", g_method, "event wd=%d mask=0x%x name='%s' read from the kernel was not delivered to its watch (slot %d, %s)",
				 x->wd, x->mask, x->name, w, ws[w].path);
			continue;
		}
		{
			struct dev *d = &dlog[del_checked++];
			S.deliveries_checked++;
			if (d->widx != w || d->e.wd != x->wd || d->e.mask != x->mask || d->e.cookie != x->cookie || strcmp(d->e.name, x->name)) {
				mon_viol("C20", "misrouted-or-out-of-order", g_method,
					 "delivery %d went to watch slot %d with wd=%d mask=0x%x name='%s'; the kernel order expects wd=%d mask=0x%x name='%s' for slot %d",
					 del_checked - 1, d->widx, d->e.wd, d->e.mask, d->e.name, x->wd, x->mask, x->name, w);
				/* resynchronise on the delivered log to avoid an avalanche */
			}
			if ((x->mask & IN_IGNORED) || ws[w].oneshot)
				sim_reg[w] = 0;
			switch (d->act) {
			case ACT_UNREG_SELF: sim_reg[d->widx] = 0; break;
			case ACT_UNREG_OTHER: sim_reg[d->act_target] = 0; break;
			case ACT_UNREG_ALL_WATCHES: for (i = 0; i < nws; i++) sim_reg[i] = 0; break;
			case ACT_UNREG_INSTANCE: sim_inst = 0; break;
			}
		}
	}
	if (final && del_checked < ndel) {
		struct dev *d = &dlog[del_checked];
		mon_viol("C20", "spurious-delivery", g_method, "%d deliveries more than the kernel events that had a registered watch; first: slot %d wd=%d mask=0x%x name='%s'",
			 ndel - del_checked, d->widx, d->e.wd, d->e.mask, d->e.name);
		del_checked = ndel;
	}
}

void hk_wait_enter(struct vt_wait *w)
{
	(void)w;
	check_deliveries(0);
	/* between two dispatches the instance must not keep a pointer into the (dead) stack frame of its dispatch function: a later
	 * unregistration would store through it (the frame is larger than what AddressSanitizer's fake stack covers, so the store
	 * itself cannot be observed) */
	S.term_checks++;
	if (inst_registered && inst != NULL && inst->term != NULL)
		mon_viol("C20", "dispatch-state-left-behind", g_method, "the loop is about to poll and the instance still points (->term = %p) into the stack frame of a dispatch that has returned: unregistering it from here on writes to dead stack memory", (void *)inst->term);
}

static void ctl_cb(void *c)
{
	char b[8];
	int i;
	(void)c;
	if (__real_read(ctl[0], b, sizeof(b)) < 0) {}
	for (i = 0; i < nws; i++)
		if (ws[i].registered)
			unreg_watch(i);
	unreg_instance();
	iv_fd_unregister(&ctl_fd);
}

int hk_quiescent(void)
{
	if (teardown_sent)
		return 0;
	teardown_sent = 1;
	if (__real_write(ctl[1], "T", 1) < 0) {}
	return 1;
}

void hk_dead_end(void)
{
	mon_viol("C07", "hang-after-teardown", g_method, "the loop does not return after the inotify instance and the control descriptor were unregistered");
	_exit(3);
}

/* ---- filesystem bursts ---------------------------------------------------------- */
static void touch(const char *p) { int fd = open(p, O_CREAT | O_WRONLY, 0644); if (fd >= 0) { if (write(fd, "x", 1) < 0) {} close(fd); } }

static void fs_burst(int nops)
{
	char a[PATH_MAX + 64], b[PATH_MAX + 64];
	int k;
	for (k = 0; k < nops; k++) {
		int d = rng_n(&R, 3), f = rng_n(&R, 6);
		snprintf(a, sizeof(a), "%s/d%d/f%d", base, d, f);
		switch (rng_n(&R, 8)) {
		case 0: case 1: touch(a); break;
		case 2: unlink(a); break;
		case 3: snprintf(b, sizeof(b), "%s/d%d/f%d", base, (int)rng_n(&R, 3), (int)rng_n(&R, 6)); rename(a, b); break;
		case 4: chmod(a, 0600 + rng_n(&R, 64)); break;
		case 5: { int fd = open(a, O_RDONLY); if (fd >= 0) { char c; if (read(fd, &c, 1) < 0) {} close(fd); } } break;
		case 6: snprintf(a, sizeof(a), "%s/top%d", base, (int)rng_n(&R, 4)); touch(a); break;
		default: snprintf(a, sizeof(a), "%s/top%d", base, (int)rng_n(&R, 4)); unlink(a); break;
		}
	}
}

static void burst_stim(void *v) { (void)v; if (!teardown_sent) fs_burst(3 + rng_n(&R, 40)); }

static void rm_tree(void)
{
	char cmd[PATH_MAX + 32];
	snprintf(cmd, sizeof(cmd), "rm -rf '%s'", base);
	if (system(cmd) < 0) {}
}

static void add_watch(const char *path, uint32_t mask, int is_dir)
{
	struct wsh *s;
	if (nws == MAXW)
		return;
	s = &ws[nws];
	memset(s, 0, sizeof(*s));
	s->w = malloc(sizeof(struct iv_inotify_watch));
	memset(s->w, 0xA5, sizeof(*s->w));
	IV_INOTIFY_WATCH_INIT(s->w);
	s->path = strdup(path);
	s->w->inotify = inst;
	s->w->pathname = s->path;
	s->w->mask = mask;
	s->w->cookie = (void *)(uintptr_t)(nws + 1);
	s->w->handler = watch_cb;
	s->oneshot = !!(mask & IN_ONESHOT);
	s->is_dir = is_dir;
	if (iv_inotify_watch_register(s->w) != 0) {
		/* refused: the path names an inode that is watched already.  inotify_add_watch() has then replaced the mask of that
		 * kernel watch (documented kernel behaviour): if the new mask is one-shot, the kernel will drop the older watch after
		 * its next event */
		struct stat a, b;
		int k;
		if (stat(path, &a) == 0)
			for (k = 0; k < nws; k++)
				if (ws[k].registered && stat(ws[k].path, &b) == 0 && a.st_ino == b.st_ino && a.st_dev == b.st_dev && (mask & IN_ONESHOT))
					ws[k].kernel_oneshot = 1;
		free(s->w);
		free(s->path);
		s->w = NULL;
		return;
	}
	s->wd = s->w->wd;
	s->registered = 1;
	nws++;
}

/* the watch descriptors the kernel holds for the instance, from /proc/self/fdinfo */
static int kernel_wds(int *wds, int max)
{
	char path[64], buf[8192], *q;
	int fd, n, cnt = 0;

	if (inot_fd < 0)
		return -1;
	snprintf(path, sizeof(path), "/proc/self/fdinfo/%d", inot_fd);
	fd = open(path, O_RDONLY);
	if (fd < 0)
		return -1;
	n = (int)__real_read(fd, buf, sizeof(buf) - 1);
	__real_close(fd);
	if (n <= 0)
		return -1;
	buf[n] = 0;
	for (q = buf; (q = strstr(q, "inotify wd:")) != NULL; q += 11)
		if (cnt < max)
			wds[cnt++] = (int)strtol(q + 11, NULL, 16);
	return cnt;
}

/*
 * A registration that is refused (the path names an inode that this instance already watches: same path, a hard link, "dir/.")
 * leaves the instance as it was: in particular the kernel still holds the watch of the registration that succeeded earlier.
 * Checked before any file system activity of the case, when nothing but an unregistration could have removed a (non one-shot) watch.
 */
static void check_kernel_watches(const char *when)
{
	int wds[64], n = kernel_wds(wds, 64), i, k;

	if (n < 0)
		return;
	S.kernel_set_checks++;
	for (i = 0; i < nws; i++) {
		if (!ws[i].registered || ws[i].oneshot || ws[i].kernel_oneshot)
			continue;
		for (k = 0; k < n; k++)
			if (wds[k] == ws[i].wd)
				break;
		if (k == n)
			mon_viol("C20", "kernel-watch-gone", g_method, "%s: watch slot %d (%s, wd %d) is registered and nothing was unregistered, but the kernel no longer holds its watch descriptor",
				 when, i, ws[i].path, ws[i].wd);
	}
}

static void run_case(long id, uint64_t seed)
{
	char p[PATH_MAX + 64];
	int i, never_read;
	const char *tmp = getenv("TMPDIR");

	mon_case_id = id;
	mon_viol_case = 0;
	mon_watchdog(60);
	rng_seed(&R, seed, (uint64_t)id);
	vt_reset_case(mix64(seed ^ (uint64_t)id));
	vt_set_single(1);
	nws = 0; nexp = exp_checked = 0; ndel = del_checked = 0; teardown_sent = 0;
	snprintf(base, sizeof(base), "%s/ivinot.%d.%ld", tmp && *tmp ? tmp : "/tmp", (int)getpid(), id);
	mkdir(base, 0700);
	for (i = 0; i < 3; i++) {
		snprintf(p, sizeof(p), "%s/d%d", base, i);
		mkdir(p, 0700);
		snprintf(p, sizeof(p), "%s/d%d/f%d", base, i, i);
		touch(p);
	}
	for (i = 0; i < 2; i++) { snprintf(p, sizeof(p), "%s/top%d", base, i); touch(p); }

	iv_init();
	if (__real_pipe(ctl) < 0) _exit(2);
	fcntl(ctl[0], F_SETFL, O_NONBLOCK);
	IV_FD_INIT(&ctl_fd);
	ctl_fd.fd = ctl[0];
	ctl_fd.handler_in = ctl_cb;
	iv_fd_register(&ctl_fd);

	inst = malloc(sizeof(struct iv_inotify));
	memset(inst, 0xA5, sizeof(*inst));	/* malloc-fill pattern: nothing may depend on zeroed memory */
	IV_INOTIFY_INIT(inst);
	if (iv_inotify_register(inst) != 0) {
		mon_printf("NOTE harness: iv_inotify_register failed\n");
		_exit(2);
	}
	inst_registered = 1;
	never_read = rng_pct(&R, 12);
	if (never_read) {
		/* an instance that is registered and unregistered without ever receiving an event */
		if (rng_pct(&R, 50)) { snprintf(p, sizeof(p), "%s/d0", base); add_watch(p, IN_ALL_EVENTS, 1); }
		S.never_read_instances++;
		for (i = 0; i < nws; i++)
			if (ws[i].registered)
				unreg_watch(i);
		unreg_instance();
	} else {
		int nd = 1 + rng_n(&R, 3), nf = rng_n(&R, 5), os_only = 0;
		if (rng_pct(&R, 12)) {
			os_only = 1;
			/* an instance whose only watches are one-shot: its watch set becomes empty in the middle of a dispatch */
			nd = 0; nf = 0;
			snprintf(p, sizeof(p), "%s/d%d", base, (int)rng_n(&R, 3));
			add_watch(p, IN_ALL_EVENTS | IN_ONESHOT, 1);
			if (rng_pct(&R, 40)) {
				snprintf(p, sizeof(p), "%s/top%d", base, (int)rng_n(&R, 2));
				add_watch(p, IN_ALL_EVENTS | IN_ONESHOT, 0);
			}
			S.oneshot_only_instances++;
		}
		for (i = 0; i < nd; i++) {
			snprintf(p, sizeof(p), "%s/d%d", base, i);
			add_watch(p, rng_pct(&R, 15) ? (IN_ALL_EVENTS | IN_ONESHOT) : rng_pct(&R, 70) ? IN_ALL_EVENTS : (IN_CREATE | IN_DELETE | IN_MOVE), 1);
		}
		if (!os_only && rng_pct(&R, 60))
			add_watch(base, IN_ALL_EVENTS, 1);
		for (i = 0; i < nf; i++) {
			snprintf(p, sizeof(p), "%s/d%d/f%d", base, (int)rng_n(&R, 3), (int)rng_n(&R, 6));
			if (rng_pct(&R, 50))
				snprintf(p, sizeof(p), "%s/top%d", base, (int)rng_n(&R, 4));
			touch(p);
			add_watch(p, rng_pct(&R, 25) ? (IN_ALL_EVENTS | IN_ONESHOT) : IN_ALL_EVENTS, 0);
		}
		/* refused registrations: another name of an inode that is already watched, with the same mask */
		if (rng_pct(&R, 50)) {
			int tries, before = nws;
			for (tries = 0; tries < 3; tries++) {
				int v = nws ? (int)rng_n(&R, nws) : -1;
				if (v < 0 || !ws[v].registered || ws[v].oneshot || ws[v].kernel_oneshot)
					continue;
				if (ws[v].is_dir) {
					snprintf(p, sizeof(p), "%s/.", ws[v].path);
				} else if (rng_pct(&R, 50)) {
					snprintf(p, sizeof(p), "%s", ws[v].path);
				} else {
					snprintf(p, sizeof(p), "%s/lnk%d", base, tries);
					if (link(ws[v].path, p) < 0)
						continue;
				}
				add_watch(p, ws[v].w->mask, ws[v].is_dir);
				S.refused_registrations++;
				if (nws != before) {
					mon_viol("C20", "duplicate-accepted", g_method, "a second watch for an inode that the instance already watches (%s) was accepted", p);
					break;
				}
			}
		}
		check_kernel_watches("after set-up");
		/* plan: at which delivery the handler unregisters what */
		memset(actions_plan, 0, sizeof(actions_plan));
		{
			int nact = rng_n(&R, 4), k;
			for (k = 0; k < nact; k++) {
				unsigned r = rng_n(&R, 100);
				actions_plan[rng_n(&R, 40)] = r < 40 ? ACT_UNREG_SELF : r < 75 ? ACT_UNREG_OTHER : r < 85 ? ACT_UNREG_ALL_WATCHES : ACT_UNREG_INSTANCE;
			}
		}
		for (i = 0; i < nws; i++)
			sim_reg[i] = ws[i].registered;
		sim_inst = 1;
		/* everything below happens before the loop runs: many events (with and without names) arrive in one read */
		fs_burst(5 + rng_n(&R, 120));
		if (rng_pct(&R, 50)) {
			int k, nb = 1 + rng_n(&R, 3);
			for (k = 0; k < nb; k++)
				vt_stim_at(vt_now() + 1000000 * (int64_t)(1 + rng_n(&R, 50)), burst_stim, NULL);
		}
	}

	iv_main();
	check_deliveries(1);

	for (i = 0; i < nws; i++) {
		if (ws[i].registered)
			mon_viol("C20", "harness-leftover", g_method, "watch slot %d still registered after tear-down", i);
		free_watch(i);
		free(ws[i].path);
		ws[i].path = NULL;
	}
	if (inst != NULL) {
		free(inst);
		inst = NULL;
	}
	iv_deinit();
	__real_close(ctl[0]);
	__real_close(ctl[1]);
	rm_tree();
	S.cases++;
	mon_printf("CASE id=%ld trace=%016llx nt=%d watches=%d events=%d deliveries=%d viol=%d\n", id,
		   (unsigned long long)hash_step(hash_step(seed, id), ndel * 4096 + nexp), ndel > 1, nws, nexp, ndel, mon_viol_case);
	if (id % 37 == 0 && nexp > 0)
		mon_printf("SAMPLE case=%ld watches=%d events_read=%d delivered=%d first_event(wd=%d mask=0x%x name='%s')\n", id, nws, nexp, ndel,
			   expq[0].wd, expq[0].mask, expq[0].name);
}

int main(int argc, char **argv)
{
	long first = arg_ll(argc, argv, "--first", 0), n = arg_ll(argc, argv, "--cases", 50), i;
	uint64_t seed = (uint64_t)arg_ll(argc, argv, "--seed", 1);

	expq = malloc(sizeof(struct xev) * MAXE);
	dlog = malloc(sizeof(struct dev) * MAXE);
	vt_init();
	signal(SIGPIPE, SIG_IGN);
	iv_init();
	g_method = iv_poll_method_name();
	iv_deinit();
	for (i = first; i < first + n; i++)
		run_case(i, seed);
	mon_printf("STAT method=%s cases=%llu reads=%llu events_parsed=%llu deliveries_checked=%llu multi_event_reads=%llu named_events=%llu "
		   "unregister_self=%llu unregister_other=%llu unregister_instance=%llu oneshot_drops=%llu ignored_drops=%llu suppressed_events=%llu "
		   "never_read_instances=%llu one_shot_only_instances=%llu refused_registrations=%llu kernel_watch_set_checks=%llu violations=%d\n", g_method, (unsigned long long)S.cases, (unsigned long long)S.reads,
		   (unsigned long long)S.events_parsed, (unsigned long long)S.deliveries_checked, (unsigned long long)S.multi_event_reads,
		   (unsigned long long)S.named_events, (unsigned long long)S.unreg_self, (unsigned long long)S.unreg_other,
		   (unsigned long long)S.unreg_instance, (unsigned long long)S.oneshot_drops, (unsigned long long)S.ignored_drops,
		   (unsigned long long)S.suppressed, (unsigned long long)S.never_read_instances, (unsigned long long)S.oneshot_only_instances, (unsigned long long)S.refused_registrations, (unsigned long long)S.kernel_set_checks, mon_viol_total);
	mon_printf("DONE\n");
	return 0;
}
