/*
 * core.c - random single-thread callback programs under virtual time, with the
 * online monitors of C01..C07 (and the parts of C15/C18 that ride on them).
 * See DESIGN.md 3.1 and the per-property sections.
 *
 * One process = one poll method (IV_EXCLUDE_POLL_METHOD) and a range of cases.
 */
#ifndef _GNU_SOURCE
#define _GNU_SOURCE
#endif
#include <errno.h>
#include <fcntl.h>
#include <poll.h>
#include <signal.h>
#include <stdio.h>
#include <stdlib.h>
#include <string.h>
#include <time.h>
#include <unistd.h>
#include <dirent.h>
#include <sys/socket.h>
#include <sys/epoll.h>
#include <iv.h>
#include <iv_event.h>
#include <iv_event_raw.h>
#include <iv_signal.h>
#include "vt.h"
#include "mon.h"

size_t __sanitizer_get_current_allocated_bytes(void) __attribute__((weak));

/* ------------------------------------------------------------------ */
enum { K_FD, K_TIMER, K_TASK, K_EVENT, K_RAW, K_SIG, K_NKIND };
static const char *kname[] = { "fd", "timer", "task", "event", "raw", "sig" };
enum { B_IN, B_OUT, B_ERR };
static const char *bname[] = { "in", "out", "err" };

#define MAXOBJ	70000
#define MAXCHAN	24
#define MAXFDN	4096

struct obj {
	int		kind;
	void		*p;		/* library struct (malloc'ed) or NULL once freed */
	unsigned	gen;
	int		registered;	/* shadow */
	int		inited;		/* the library's INIT macro has been applied to this struct */
	int		never;		/* parked timer (expiry decades away) */
	int		sweeper_of;	/* 1 + index of the parked timer that this near timer removes when it fires */
	unsigned	sweeper_gen;
	int		reaper;
	int		driver;		/* population driver task */
	int		burner;		/* task that burns time towards the earliest deadline and re-registers itself this many times */
	/* fd */
	int		osfd, chan, side;
	int		hvar[3];	/* installed handler variant per band, 0 = NULL */
	long		entered_iter[3];
	long		excuse_iter[3];
	long		must_enter_iter[3];
	long		unserved_since[3];	/* first iteration in which (wanted & ready) was seen unserved, -1 none */
	long		installed_iter[3];	/* iteration in which the handler was last installed */
	long		reg_iter;
	/* timer */
	struct timespec	expires;
	int		fired;
	uint64_t	reg_seq;
	long		due_seen_iter;	/* first wait entry at which expires <= V was observed, -1 none */
	int		regpos;		/* position in reglist[kind] while registered */
	/* task */
	long		ran_iter;
	long		init_in_task_round;	/* iteration in which a task handler initialised this task, -100 otherwise */
	/* event / raw / sig */
	long		posts, entries;
	int		signum;
	int		sigflags;
};

struct chan {
	int	fd[2];
	int	open[2];
	int	obj[2];		/* FD object currently registered on that end, -1 none */
	int	type;		/* 0 pipe (fd[0] read end, fd[1] write end), 1 socketpair */
};

static struct obj objs[MAXOBJ];
static int nobjs;
/* indices of the registered objects (shadow), per kind, for cheap scans */
static int *reglist[K_NKIND];
static int nreg[K_NKIND], nreg_total;
static struct chan chans[MAXCHAN];
static int nchans;
static int fd2chan[MAXFDN], fd2side[MAXFDN];	/* OS descriptor -> channel end */

static struct rng R;
static uint64_t g_seed;
static const char *g_focus = "";
static int task_poll_run;	/* consecutive non-blocking polls made with tasks pending */
/* train plans, see A_TRAIN */
static struct { int active, mode, o, cnt, clear_at, rereg_at, never_o; unsigned never_gen; int64_t T; } train_plan;
static int64_t forced_expiry_sec = -1;
static const char *g_method = "?";
static int g_is_epoll, g_budget_base = 120;

/* per case state */
static long iter;			/* number of the current iteration = index of the last wait entered */
static int in_main, cb_depth, in_wait;
static int quit_requested;
static long cb_total, cb_this_iter, budget;
static int winding;			/* 0 normal, 1 budget exhausted, 2 reaper ran */
static int reap_triggered;
static int reaper_obj = -1;
static uint64_t evseq;			/* event sequence number */
static uint64_t trace_hash;
static int pop_mode, pop_big;
static int in_task_handler;
static void pop_expiry(struct timespec *ts);
static long round_start_iter = -1;
static uint64_t round_start_seq;
static int stim_applied_iter;
static int spin_events, spin_zero;
static int empty_shadow_waits;
static int eintr_this_iter, eintr_natural;
static short snapE[MAXFDN], snapS[MAXFDN];	/* poll(2) revents at wait entry / after wait return */
static int last_wait_ret_events;
static long last_wait_timeout_zero;
static unsigned enabled_mask;		/* swarm: enabled action kinds */
static int sample_left;
static char sample_buf[4096];
static int sample_len;
static int dead_fd = -1, reg_file_fd = -1;
static int g_nosig, g_quiet_case, g_no_eintr_stim;
static uint64_t last_trace, case_inj0;
static long last_iters;

/* non-triviality flags per case */
static int nt_c01, nt_c02, nt_c03, nt_c04, nt_c05, nt_c06, nt_c07;
static int tfd_engaged, case_max_timers;

/* global stats */
static struct {
	uint64_t cases, cb[K_NKIND], waits, fd_entries_checked, wait_entries_checked, timer_entries_checked,
		 task_entries_checked, unreg_of_due, handler_changes, reinstall_while_ready, tfd_engaged_cases,
		 multi_timer_iters, failed_reg, quits, reenters, deadline_checks, rk_nonempty, b_obligations,
		 nt[8], eintr_seen, sig_raised, ev_posts, raw_posts, actions, frees_in_handler, struct_reuse, timer_rereg_without_init, never_timers, timer_clears, train_plans, terminal_plans,
		 hyg_checks, stim_applied, max_timers, pop_cases, pop_max;
} S;

#define MAXSIGH 4096
static uint64_t sigs_seen[8][MAXSIGH];	/* distinct non-trivial signatures per property (open addressing) */
static uint64_t sigs_count[8];

static void sig_add(int prop, uint64_t h)
{
	unsigned i = (unsigned)(h % MAXSIGH), n;
	if (!h)
		h = 1;
	for (n = 0; n < MAXSIGH; n++, i = (i + 1) % MAXSIGH) {
		if (sigs_seen[prop][i] == h)
			return;
		if (!sigs_seen[prop][i]) {
			sigs_seen[prop][i] = h;
			sigs_count[prop]++;
			return;
		}
	}
}

/* ------------------------------------------------------------------ */
/*
 * The harness's own reference priority queue of registered timers (a plain binary heap with lazy deletion,
 * unrelated to the library's radix-tree heap): earliest registered expiry in O(log n).
 */
struct rh { int64_t exp; int obj; unsigned gen; };
static struct rh *rheap;
static int rh_n, rh_cap;

/* (expiries more than 285 years away are all the same far instant for the shadow: 64-bit nanoseconds end there) */
static int64_t ts_ns_(const struct timespec *ts) { return ts->tv_sec >= 9000000000LL ? 9000000000LL * VT_NS : (int64_t)ts->tv_sec * VT_NS + ts->tv_nsec; }

static void rh_push_raw(int64_t exp, int obj, unsigned gen)
{
	int i = rh_n++;
	while (i > 0 && rheap[(i - 1) / 2].exp > exp) {
		rheap[i] = rheap[(i - 1) / 2];
		i = (i - 1) / 2;
	}
	rheap[i].exp = exp; rheap[i].obj = obj; rheap[i].gen = gen;
}

static void rh_push(int64_t exp, int obj, unsigned gen)
{
	int i;
	if (rheap == NULL) {
		/* allocated once, at its final size, so that it does not show up as heap growth between cycles */
		rh_cap = 4 * MAXOBJ;
		rheap = malloc(sizeof(struct rh) * rh_cap);
	}
	if (rh_n == rh_cap) {
		/* full of stale entries: rebuild from the registered timers */
		int q;
		rh_n = 0;
		for (q = 0; q < nreg[K_TIMER]; q++) {
			int o2 = reglist[K_TIMER][q];
			rh_push_raw(ts_ns_(&objs[o2].expires), o2, objs[o2].gen);
		}
	}
	i = rh_n++;
	while (i > 0 && rheap[(i - 1) / 2].exp > exp) {
		rheap[i] = rheap[(i - 1) / 2];
		i = (i - 1) / 2;
	}
	rheap[i].exp = exp; rheap[i].obj = obj; rheap[i].gen = gen;
}

static void rh_pop(void)
{
	struct rh last = rheap[--rh_n];
	int i = 0;
	for (;;) {
		int c = 2 * i + 1;
		if (c >= rh_n)
			break;
		if (c + 1 < rh_n && rheap[c + 1].exp < rheap[c].exp)
			c++;
		if (rheap[c].exp >= last.exp)
			break;
		rheap[i] = rheap[c];
		i = c;
	}
	if (rh_n > 0)
		rheap[i] = last;
}

static int64_t ts_ns(const struct timespec *ts) { return ts->tv_sec >= 9000000000LL ? 9000000000LL * VT_NS : (int64_t)ts->tv_sec * VT_NS + ts->tv_nsec; }

/* earliest registered timer according to the shadow, or -1 */
static int rh_min(void)
{
	while (rh_n > 0) {
		struct obj *ob = &objs[rheap[0].obj];
		if (ob->kind == K_TIMER && ob->registered && ob->gen == rheap[0].gen && ts_ns(&ob->expires) == rheap[0].exp)
			return rheap[0].obj;
		rh_pop();
	}
	return -1;
}

static void trace(const char *fmt, ...) __attribute__((format(printf, 1, 2)));
static void trace(const char *fmt, ...)
{
	va_list ap;
	if (sample_left <= 0 || sample_len > (int)sizeof(sample_buf) - 200)
		return;
	va_start(ap, fmt);
	sample_len += vsnprintf(sample_buf + sample_len, sizeof(sample_buf) - sample_len, fmt, ap);
	va_end(ap);
}

static void th(uint64_t a, uint64_t b, uint64_t c)
{
	trace_hash = hash_step(trace_hash, a * 1000003 + b * 1009 + c);
}

static void *cookie_of(int o) { return (void *)(uintptr_t)((((uintptr_t)objs[o].gen) << 17) | (unsigned)o) + 1; }

static int cookie_obj(void *c, unsigned *gen)
{
	uintptr_t v = (uintptr_t)c - 1;
	*gen = (unsigned)(v >> 17);
	return (int)(v & 131071);
}

static int shadow_count(void) { return nreg_total; }

static void set_registered(int o, int on)
{
	struct obj *ob = &objs[o];
	int k = ob->kind;

	if (ob->registered == on)
		return;
	ob->registered = on;
	if (on) {
		ob->regpos = nreg[k];
		reglist[k][nreg[k]++] = o;
		nreg_total++;
	} else {
		int last = reglist[k][--nreg[k]];
		reglist[k][ob->regpos] = last;
		objs[last].regpos = ob->regpos;
		nreg_total--;
	}
}

static void fatal_msg(const char *msg)
{
	char key[96];
	int i;
	/* stable key: message up to the first digit / colon detail */
	for (i = 0; msg[i] && i < 90; i++) {
		if ((msg[i] >= '0' && msg[i] <= '9') || msg[i] == '[')
			break;
		key[i] = msg[i] == ' ' ? '_' : msg[i];
	}
	key[i] = 0;
	mon_viol("C18", "iv_fatal", key, "library called iv_fatal: %s", msg);
	if (strstr(msg, "iv_run_timers") || strstr(msg, "iv_timer_"))
		mon_viol("C05", "iv_fatal", key, "timer store fatal: %s", msg);
	if (strstr(msg, "epoll") || strstr(msg, "poll"))
		mon_viol("C02", "iv_fatal", key, "poll method fatal: %s", msg);
	mon_printf("NOTE iv_fatal: %s\n", msg);
}

/* ------------------------------------------------------------------ */
/* channels */
static void chan_map(int c)
{
	int s;
	for (s = 0; s < 2; s++) {
		int fd = chans[c].fd[s];
		if (fd >= MAXFDN) {
			mon_printf("NOTE harness: descriptor %d too large\n", fd);
			_exit(2);
		}
		fd2chan[fd] = c;
		fd2side[fd] = s;
	}
}

static void set_nb(int fd)
{
	fcntl(fd, F_SETFL, fcntl(fd, F_GETFL) | O_NONBLOCK);
}

static int chan_new(void)
{
	struct chan *ch;
	int c;

	for (c = 0; c < nchans; c++)
		if (!chans[c].open[0] && !chans[c].open[1])
			break;
	if (c == nchans) {
		if (nchans == MAXCHAN)
			return -1;
		nchans++;
	}
	ch = &chans[c];
	ch->type = rng_pct(&R, 50);
	if (ch->type == 0) {
		if (__real_pipe(ch->fd) < 0)
			return -1;
	} else {
		if (socketpair(AF_UNIX, SOCK_STREAM, 0, ch->fd) < 0)
			return -1;
	}
	set_nb(ch->fd[0]);
	set_nb(ch->fd[1]);
	ch->open[0] = ch->open[1] = 1;
	ch->obj[0] = ch->obj[1] = -1;
	chan_map(c);
	return c;
}

static void chan_close_end(int c, int s)
{
	struct chan *ch = &chans[c];
	if (!ch->open[s])
		return;
	fd2chan[ch->fd[s]] = -1;
	__real_close(ch->fd[s]);
	ch->open[s] = 0;
}

static void chan_write(int c, int s, int n)
{
	static char buf[65536];
	struct chan *ch = &chans[c];
	if (!ch->open[s] || (ch->type == 0 && s == 0))
		return;
	if (n > (int)sizeof(buf))
		n = sizeof(buf);
	if (__real_write(ch->fd[s], buf, n) < 0) {}
}

static void chan_fill(int c, int s)
{
	static char buf[65536];
	struct chan *ch = &chans[c];
	int i;
	if (!ch->open[s] || (ch->type == 0 && s == 0))
		return;
	for (i = 0; i < 64; i++)
		if (__real_write(ch->fd[s], buf, sizeof(buf)) <= 0)
			break;
}

static void chan_drain(int c, int s)
{
	static char buf[65536];
	struct chan *ch = &chans[c];
	int i;
	if (!ch->open[s] || (ch->type == 0 && s == 1))
		return;
	for (i = 0; i < 64; i++)
		if (__real_read(ch->fd[s], buf, sizeof(buf)) <= 0)
			break;
}

static void snapshot(short *snap)
{
	struct pollfd p[2 * MAXCHAN];
	int n = 0, c, s, i;

	for (c = 0; c < nchans; c++)
		for (s = 0; s < 2; s++)
			if (chans[c].open[s]) {
				p[n].fd = chans[c].fd[s];
				p[n].events = POLLIN | POLLOUT;
				p[n].revents = 0;
				n++;
			}
	if (n)
		__real_poll(p, n, 0);
	for (i = 0; i < n; i++)
		snap[p[i].fd] = p[i].revents;
}

static int band_cond(short rev, int b)
{
	switch (b) {
	case B_IN:	return !!(rev & (POLLIN | POLLHUP | POLLERR));
	case B_OUT:	return !!(rev & (POLLOUT | POLLHUP | POLLERR));
	default:	return !!(rev & (POLLHUP | POLLERR));
	}
}

/* ------------------------------------------------------------------ */
/* object management */
static int obj_new(int kind)
{
	struct obj *o;
	int b;

	if (nobjs == MAXOBJ)
		return -1;
	o = &objs[nobjs];
	memset(o, 0, sizeof(*o));
	o->kind = kind;
	o->gen = 1;
	o->chan = -1;
	o->osfd = -1;
	o->due_seen_iter = -1;
	o->ran_iter = -100;
	o->init_in_task_round = -100;
	for (b = 0; b < 3; b++) {
		o->entered_iter[b] = -100;
		o->excuse_iter[b] = -100;
		o->must_enter_iter[b] = -100;
		o->unserved_since[b] = -1;
		o->installed_iter[b] = -1;
	}
	return nobjs++;
}

static void fd_cb(void *cookie, int band, int variant);
static void h_in_a(void *c)  { fd_cb(c, B_IN, 1); }
static void h_in_b(void *c)  { fd_cb(c, B_IN, 2); }
static void h_out_a(void *c) { fd_cb(c, B_OUT, 1); }
static void h_out_b(void *c) { fd_cb(c, B_OUT, 2); }
static void h_err_a(void *c) { fd_cb(c, B_ERR, 1); }
static void h_err_b(void *c) { fd_cb(c, B_ERR, 2); }
typedef void (*hfn)(void *);
static hfn hfun(int band, int v)
{
	static const hfn t[3][3] = { { NULL, h_in_a, h_in_b }, { NULL, h_out_a, h_out_b }, { NULL, h_err_a, h_err_b } };
	return t[band][v];
}
static void timer_cb(void *cookie);
static void task_cb(void *cookie);
static void event_cb(void *cookie);
static void raw_cb(void *cookie);
static void sig_cb(void *cookie);

static void mark_unreg_shadow(int o)
{
	struct obj *ob = &objs[o];
	int b;

	set_registered(o, 0);
	ob->gen++;
	if (ob->kind == K_FD) {
		for (b = 0; b < 3; b++) {
			ob->excuse_iter[b] = iter;
			ob->unserved_since[b] = -1;
			ob->must_enter_iter[b] = -100;
		}
		if (ob->chan >= 0 && chans[ob->chan].obj[ob->side] == o)
			chans[ob->chan].obj[ob->side] = -1;
	}
}

static int fd_is_due(int o)
{
	/* reported by the kernel in the current batch and not yet entered */
	struct obj *ob = &objs[o];
	int b;
	for (b = 0; b < 3; b++)
		if (ob->must_enter_iter[b] == iter && ob->entered_iter[b] != iter)
			return 1;
	return 0;
}

static int timer_is_due(int o)
{
	return objs[o].registered && ts_ns(&objs[o].expires) <= vt_now();
}

static void obj_free(int o)
{
	struct obj *ob = &objs[o];
	if (ob->p != NULL) {
		free(ob->p);
		ob->p = NULL;
	}
}

/* unregister (if registered) and free at once */
static void obj_unreg(int o, int do_free)
{
	struct obj *ob = &objs[o];

	if (!ob->registered || ob->p == NULL)
		return;
	switch (ob->kind) {
	case K_FD:
		if (fd_is_due(o)) { nt_c01 = 1; S.unreg_of_due++; }
		iv_fd_unregister(ob->p);
		break;
	case K_TIMER:
		if (timer_is_due(o)) { nt_c01 = 1; S.unreg_of_due++; }
		iv_timer_unregister(ob->p);
		break;
	case K_TASK:
		nt_c01 = 1; S.unreg_of_due++;
		iv_task_unregister(ob->p);
		break;
	case K_EVENT:
		if (ob->posts > ob->entries) { nt_c01 = 1; S.unreg_of_due++; }
		iv_event_unregister(ob->p);
		break;
	case K_RAW:
		iv_event_raw_unregister(ob->p);
		break;
	case K_SIG:
		iv_signal_unregister(ob->p);
		break;
	}
	th(100 + ob->kind, o, 0);
	trace("unreg(%s#%d)%s ", kname[ob->kind], o, do_free ? "+free" : "");
	mark_unreg_shadow(o);
	if (do_free)
		obj_free(o);
}

static int pick_free_end(int *cp, int *sp)
{
	int tries, c, s;
	for (tries = 0; tries < 8; tries++) {
		if (nchans == 0 || rng_pct(&R, 15)) {
			c = chan_new();
			if (c < 0)
				continue;
		} else {
			c = rng_n(&R, nchans);
		}
		s = rng_n(&R, 2);
		if (chans[c].open[s] && chans[c].obj[s] < 0) {
			*cp = c;
			*sp = s;
			return 0;
		}
	}
	return -1;
}

/* register an fd object; reuse_o >= 0 re-uses that object's (unregistered) struct memory */
static int fd_register(int c, int s, int reuse_o, int use_try, int hv[3])
{
	struct iv_fd *f;
	int o, b, ret = 0, skip_init = 0;

	if (reuse_o >= 0) {
		o = reuse_o;
		S.struct_reuse++;
		nt_c03 = 1;
		skip_init = rng_pct(&R, 50);	/* a struct that was initialised once may be registered again as it is */
	} else {
		o = obj_new(K_FD);
		if (o < 0)
			return -1;
		objs[o].p = malloc(sizeof(struct iv_fd));
		memset(objs[o].p, 0xA5, sizeof(struct iv_fd));
	}
	f = objs[o].p;
	if (!skip_init)
		IV_FD_INIT(f);
	f->fd = chans[c].fd[s];
	f->cookie = cookie_of(o);
	f->handler_in = hfun(B_IN, hv[0]);
	f->handler_out = hfun(B_OUT, hv[1]);
	f->handler_err = hfun(B_ERR, hv[2]);
	trace("fdreg%s(#%d,fd%d,%d%d%d) ", use_try ? "_try" : "", o, f->fd, hv[0], hv[1], hv[2]);
	th(10 + use_try, o, hv[0] * 9 + hv[1] * 3 + hv[2]);
	if (use_try) {
		vt_in_register_try = 1;
		ret = iv_fd_register_try(f);
		vt_in_register_try = 0;
	} else {
		iv_fd_register(f);
	}
	if (ret) {
		/* must not happen for a valid descriptor */
		mon_viol("C07", "register_try-failed-valid", "fd", "iv_fd_register_try failed (%d) on open descriptor %d", ret, f->fd);
		if (reuse_o < 0) { obj_free(o); }
		return -1;
	}
	set_registered(o, 1);
	objs[o].chan = c;
	objs[o].side = s;
	objs[o].osfd = f->fd;
	objs[o].reg_iter = iter;
	chans[c].obj[s] = o;
	for (b = 0; b < 3; b++) {
		objs[o].hvar[b] = hv[b];
		objs[o].entered_iter[b] = -100;
		objs[o].must_enter_iter[b] = -100;
		objs[o].unserved_since[b] = -1;
		objs[o].installed_iter[b] = hv[b] ? iter : -1;
	}
	{
		int fl = fcntl(f->fd, F_GETFL), fdfl = fcntl(f->fd, F_GETFD);
		if (!(fl & O_NONBLOCK) || !(fdfl & FD_CLOEXEC))
			mon_viol("C18", "fd-flags", "register", "descriptor %d after registration: O_NONBLOCK=%d FD_CLOEXEC=%d",
				 f->fd, !!(fl & O_NONBLOCK), !!(fdfl & FD_CLOEXEC));
	}
	return o;
}

static void fd_register_bad(void)
{
	struct iv_fd *f = malloc(sizeof(*f));
	int which = rng_n(&R, 2), ret, before = shadow_count();
	int expect_fail;

	memset(f, 0xA5, sizeof(*f));
	IV_FD_INIT(f);
	if (which == 0 || reg_file_fd < 0) {
		f->fd = dead_fd;
		expect_fail = 1;
	} else {
		f->fd = reg_file_fd;
		expect_fail = g_is_epoll;
		if (!expect_fail) {
			free(f);
			return;		/* a regular file is pollable with poll(2): not a failure case */
		}
	}
	f->cookie = NULL;
	f->handler_in = rng_pct(&R, 50) ? h_in_a : NULL;
	f->handler_out = rng_pct(&R, 30) ? h_out_a : NULL;
	f->handler_err = NULL;
	vt_in_register_try = 1;
	ret = iv_fd_register_try(f);
	vt_in_register_try = 0;
	trace("fdreg_try_bad(fd%d)=%d ", f->fd, ret);
	th(12, which, ret != 0);
	S.failed_reg++;
	nt_c07 = 1;
	if (expect_fail && ret == 0) {
		mon_viol("C07", "register_try-should-fail", which ? "regular-file" : "closed-fd",
			 "iv_fd_register_try succeeded on %s descriptor %d", which ? "regular file" : "closed", f->fd);
		iv_fd_unregister(f);
	}
	if (ret != 0 && iv_fd_registered(f))
		mon_viol("C07", "failed-register-left-state", "registered-flag", "iv_fd_registered() is true after failed iv_fd_register_try");
	if (ret != 0 && rng_pct(&R, 50)) {
		/* the failed call left the loop and the struct as they were: use the same struct for a good descriptor */
		int c, s, o, hv[3];
		if (pick_free_end(&c, &s) == 0 && (o = obj_new(K_FD)) >= 0) {
			hv[0] = f->handler_in ? 1 : 0;
			hv[1] = f->handler_out ? 1 : 0;
			hv[2] = 0;
			objs[o].p = f;
			if (fd_register(c, s, o, rng_pct(&R, 30), hv) < 0)
				obj_free(o);
			return;
		}
	}
	free(f);		/* a failed registration leaves no reference: ASan checks that */
	(void)before;
}

static void fd_set_handler(int o, int b, int v)
{
	struct obj *ob = &objs[o];
	int oldv = ob->hvar[b];

	if (!ob->registered)
		return;
	trace("seth(#%d,%s,%d) ", o, bname[b], v);
	th(20 + b, o, v);
	S.handler_changes++;
	if (oldv && !v) {
		ob->excuse_iter[b] = iter;
		ob->unserved_since[b] = -1;
	}
	if (!oldv && v) {
		ob->installed_iter[b] = iter;
		if (ob->excuse_iter[b] > -100 && band_cond(snapE[ob->osfd], b)) {
			nt_c02 = 1;
			S.reinstall_while_ready++;
		}
	}
	ob->hvar[b] = v;
	switch (b) {
	case B_IN:	iv_fd_set_handler_in(ob->p, hfun(b, v)); break;
	case B_OUT:	iv_fd_set_handler_out(ob->p, hfun(b, v)); break;
	default:	iv_fd_set_handler_err(ob->p, hfun(b, v)); break;
	}
}

static int picked_never, picked_eternal;

static void pick_expiry(struct timespec *ts)
{
	int64_t now = vt_now(), e;
	int i;

	switch (rng_n(&R, 10)) {
	case 0:	e = now - 1 - (int64_t)rng_n(&R, 1000000000); break;		/* past */
	case 1:	e = 0; break;							/* zero */
	case 2:	e = now; break;							/* now */
	case 3: case 4:								/* equal to an existing one */
		e = now + 1000 * (int64_t)rng_n(&R, 3000);
		if (nreg[K_TIMER]) {
			int src = reglist[K_TIMER][rng_n(&R, nreg[K_TIMER])];
			e = ts_ns(&objs[src].expires);
			if (objs[src].never) {
				if (pop_mode || winding)
					e = now + 1000 * (int64_t)rng_n(&R, 3000);
				else
					picked_never = 1;	/* a second timer parked at the same far instant: it gets its own companion */
			}
		}
		(void)i;
		break;
	case 5: case 6: case 7:
		e = now + 1 + (int64_t)rng_n(&R, 5000000); break;			/* near: up to 5 ms */
	case 8:
		e = now + 1000000 * (int64_t)(1 + rng_n(&R, 5)); break;			/* whole ms */
	default:
		e = now + VT_NS * (int64_t)(1 + rng_n(&R, 3600)) + rng_n(&R, 1000000000);	/* far */
		if (now < 1000000 * VT_NS && !pop_mode && !winding && rng_pct(&R, 15)) {
			/* a parked "never" timer: 70-150 years out (more than 2^31 seconds away from every other expiry) */
			e = now + VT_NS * (int64_t)(2209000000LL + rng_n(&R, 2500000000u));
			S.never_timers++;
			picked_never = 1;
			if (rng_pct(&R, 30))
				picked_eternal = 1;	/* ... or several centuries: the difference to "now" no longer fits into 64-bit nanoseconds */
		}
		break;
	}
	if (e < 0)
		e = 0;
	ts->tv_sec = e / VT_NS;
	ts->tv_nsec = e % VT_NS;
	if (picked_eternal) {
		picked_eternal = 0;
		ts->tv_sec = now / VT_NS + 9300000000LL + (time_t)rng_n(&R, 4000000000u);
	}
}

static int timer_register(int reuse_o)
{
	struct iv_timer *t;
	int o, i, n;

	if (reuse_o >= 0) {
		o = reuse_o;
	} else {
		o = obj_new(K_TIMER);
		if (o < 0)
			return -1;
		objs[o].p = malloc(sizeof(struct iv_timer));
		memset(objs[o].p, 0xA5, sizeof(struct iv_timer));
	}
	t = objs[o].p;
	/* a timer that was unregistered, or whose handler has been entered, may be registered again as it is: half of the re-uses skip the INIT */
	if (reuse_o < 0 || !objs[o].inited || rng_pct(&R, 50))
		IV_TIMER_INIT(t);
	else
		S.timer_rereg_without_init++;
	objs[o].inited = 1;
	if (pop_mode)
		pop_expiry(&t->expires);
	else
		pick_expiry(&t->expires);
	if (forced_expiry_sec >= 0) {
		t->expires.tv_sec = forced_expiry_sec;
		t->expires.tv_nsec = 0;
		forced_expiry_sec = -1;
		picked_never = 0;
	}
	t->cookie = cookie_of(o);
	t->handler = timer_cb;
	objs[o].expires = t->expires;
	objs[o].fired = 0;
	objs[o].reg_seq = ++evseq;
	objs[o].due_seen_iter = -1;
	trace("treg(#%d,%+lldns) ", o, (long long)(ts_ns(&t->expires) - vt_now()));
	th(30, o, (uint64_t)(ts_ns(&t->expires) - vt_now()));
	iv_timer_register(t);
	set_registered(o, 1);
	rh_push(ts_ns(&t->expires), o, objs[o].gen);
	objs[o].never = 0;
	if (picked_never) {
		/* a parked timer never gets to fire: a near companion timer takes it away again (the loop must not be left with it alone) */
		int o2;
		picked_never = 0;
		objs[o].never = 1;
		o2 = timer_register(-1);
		if (o2 >= 0 && !objs[o2].never) {
			struct iv_timer *t2 = objs[o2].p;
			int64_t e2 = vt_now() + 1000 * (int64_t)(1 + rng_n(&R, 8000));
			iv_timer_unregister(t2);
			t2->expires.tv_sec = e2 / VT_NS;
			t2->expires.tv_nsec = e2 % VT_NS;
			objs[o2].expires = t2->expires;
			iv_timer_register(t2);
			rh_push(ts_ns(&t2->expires), o2, objs[o2].gen);
			objs[o2].sweeper_of = o + 1;
			objs[o2].sweeper_gen = objs[o].gen;
		} else {
			obj_unreg(o, 1);	/* no room for the companion: do without the parked timer */
			return -1;
		}
	}
	n = nreg[K_TIMER];
	(void)i;
	if (n > case_max_timers)
		case_max_timers = n;
	if ((uint64_t)n > S.max_timers)
		S.max_timers = n;
	return o;
}

static int task_register(int reuse_o)
{
	struct iv_task *t;
	int o;

	if (reuse_o >= 0) {
		o = reuse_o;
		t = objs[o].p;
		t->cookie = cookie_of(o);
	} else {
		o = obj_new(K_TASK);
		if (o < 0)
			return -1;
		objs[o].p = t = malloc(sizeof(struct iv_task));
		memset(t, 0xA5, sizeof(*t));
		IV_TASK_INIT(t);
		t->cookie = cookie_of(o);
		t->handler = task_cb;
		if (in_task_handler)
			objs[o].init_in_task_round = iter;
	}
	trace("taskreg(#%d%s) ", o, reuse_o >= 0 ? ",again" : "");
	th(40, o, reuse_o >= 0);
	if (reuse_o >= 0 && objs[o].ran_iter == iter)
		nt_c06 = 1;
	iv_task_register(t);
	set_registered(o, 1);
	return o;
}

static int event_register(void)
{
	struct iv_event *e;
	int o = obj_new(K_EVENT), ret;

	if (o < 0)
		return -1;
	objs[o].p = e = malloc(sizeof(*e));
	memset(e, 0xA5, sizeof(*e));
	IV_EVENT_INIT(e);
	e->cookie = cookie_of(o);
	e->handler = event_cb;
	ret = iv_event_register(e);
	trace("evreg(#%d)=%d ", o, ret);
	th(50, o, ret != 0);
	if (ret) {
		obj_free(o);
		return -1;
	}
	set_registered(o, 1);
	return o;
}

static int raw_register(void)
{
	struct iv_event_raw *e;
	int o = obj_new(K_RAW), ret;

	if (o < 0)
		return -1;
	objs[o].p = e = malloc(sizeof(*e));
	memset(e, 0xA5, sizeof(*e));
	IV_EVENT_RAW_INIT(e);
	e->cookie = cookie_of(o);
	e->handler = raw_cb;
	ret = iv_event_raw_register(e);
	trace("rawreg(#%d)=%d ", o, ret);
	th(60, o, ret != 0);
	if (ret) {
		obj_free(o);
		return -1;
	}
	set_registered(o, 1);
	return o;
}

static const int sig_choices[4] = { SIGUSR1, SIGUSR2, 40, 41 };

static int sig_register(void)
{
	struct iv_signal *s;
	int o = obj_new(K_SIG), ret;

	if (o < 0)
		return -1;
	objs[o].p = s = malloc(sizeof(*s));
	memset(s, 0xA5, sizeof(*s));
	IV_SIGNAL_INIT(s);
	s->signum = sig_choices[rng_n(&R, 4)];
	s->flags = (rng_pct(&R, 30) ? IV_SIGNAL_FLAG_EXCLUSIVE : 0) | (rng_pct(&R, 30) ? IV_SIGNAL_FLAG_THIS_THREAD : 0);
	s->cookie = cookie_of(o);
	s->handler = sig_cb;
	ret = iv_signal_register(s);
	trace("sigreg(#%d,%d,f%d) ", o, s->signum, s->flags);
	th(70, o, s->signum * 4 + s->flags);
	if (ret) {
		obj_free(o);
		return -1;
	}
	objs[o].signum = s->signum;
	objs[o].sigflags = s->flags;
	set_registered(o, 1);
	return o;
}

/* pick a registered object of a kind; prefer_due biases to objects collected for dispatch */
static int pick_obj(int kind, int prefer_due)
{
	int cand[64], nc = 0, due[64], nd = 0, i;

	int start = nreg[kind] > 64 ? (int)rng_n(&R, nreg[kind]) : 0, q;
	for (q = 0; q < nreg[kind] && q < 64; q++) {
		struct obj *ob;
		i = reglist[kind][(start + q) % nreg[kind]];
		ob = &objs[i];
		if (ob->reaper || ob->sweeper_of || (train_plan.active && kind == K_FD && i == train_plan.o))
			continue;
		if (nc < 64)
			cand[nc++] = i;
		if (nd < 64) {
			if ((kind == K_FD && fd_is_due(i)) || (kind == K_TIMER && timer_is_due(i)) ||
			    kind == K_TASK || (kind == K_EVENT && ob->posts > ob->entries) ||
			    ((kind == K_RAW || kind == K_SIG) && ob->posts > ob->entries))
				due[nd++] = i;
		}
	}
	if (prefer_due && nd && rng_pct(&R, 70))
		return due[rng_n(&R, nd)];
	if (nc)
		return cand[rng_n(&R, nc)];
	return -1;
}

/* ------------------------------------------------------------------ */
/* stimuli (applied by the shim at quiescence, in virtual-time order) */
struct stim_arg { int kind, c, s, n; };

static void trigger_reap(void);
static void stim_fn(void *v)
{
	struct stim_arg *a = v;

	stim_applied_iter = 1;
	S.stim_applied++;
	if (a->c < nchans) {
		switch (a->kind) {
		case 0:	chan_write(a->c, a->s, a->n); break;
		case 1:
			if (chans[a->c].open[a->s] && chans[a->c].obj[a->s] < 0)
				chan_close_end(a->c, a->s);
			break;
		case 2:	chan_drain(a->c, a->s); break;
		}
	}
	if (a->kind == 9)
		trigger_reap();		/* safety net of a terminal train plan: the case winds down */
	if (a->kind == 3 && !g_no_eintr_stim)
		vt_interrupt_wait();	/* a signal handler ran at this virtual instant: the kernel wait returns EINTR */
	free(a);
}

static void trigger_reap(void)
{
	struct obj *ob;
	if (reap_triggered || reaper_obj < 0)
		return;
	reap_triggered = 1;
	ob = &objs[reaper_obj];
	chan_write(ob->chan, !ob->side, 1);
}

/* ------------------------------------------------------------------ */
/* timer population histories (C05): a driver task walks the population through a list of target sizes */
static int pop_targets[96], pop_ntargets, pop_tidx, pop_strategy;
static int pop_newest = -1;
static int64_t pop_equal[8];

static void pop_expiry(struct timespec *ts)
{
	int64_t now = vt_now(), e;
	unsigned r = rng_n(&R, 100);

	if (r < 40)		e = now + 1000000 + (int64_t)(rng_u64(&R) % (100 * (uint64_t)VT_NS));
	else if (r < 70)	e = pop_equal[rng_n(&R, 8)];
	else if (r < 80)	e = now + VT_NS * (int64_t)(3600 + rng_n(&R, 100000));
	else if (r < 90)	e = now + 1 + rng_n(&R, 1000000);
	else			e = now - (int64_t)rng_n(&R, 1000000);
	if (e < 0)
		e = 0;
	ts->tv_sec = e / VT_NS;
	ts->tv_nsec = e % VT_NS;
}

static int timer_register(int reuse_o);
static void obj_unreg(int o, int do_free);

static int pop_victim(void)
{
	int n = nreg[K_TIMER], q, best = -1;

	if (n == 0)
		return -1;
	switch (pop_strategy) {
	case 0:		/* the earliest one (heap root), exact for small populations, sampled for large ones */
		if (n <= 512) {
			for (q = 0; q < n; q++)
				if (best < 0 || ts_ns(&objs[reglist[K_TIMER][q]].expires) < ts_ns(&objs[best].expires))
					best = reglist[K_TIMER][q];
		} else {
			for (q = 0; q < 64; q++) {
				int c = reglist[K_TIMER][rng_n(&R, n)];
				if (best < 0 || ts_ns(&objs[c].expires) < ts_ns(&objs[best].expires))
					best = c;
			}
		}
		return best;
	case 1:		/* the newest one (often the last heap slot) */
		if (pop_newest >= 0 && objs[pop_newest].registered)
			return pop_newest;
		return reglist[K_TIMER][n - 1];
	case 2:		/* the oldest registration */
		return reglist[K_TIMER][0];
	default:	/* anything */
		return reglist[K_TIMER][rng_n(&R, n)];
	}
}

static int pop_step(void)
{
	int ops = 0;

	while (ops < 96 && pop_tidx < pop_ntargets) {
		int cur = nreg[K_TIMER], tgt = pop_targets[pop_tidx];
		if (cur < tgt) {
			pop_newest = timer_register(-1);
			if (pop_newest < 0)
				return 0;
		} else if (cur > tgt) {
			int v = pop_victim();
			if (v < 0)
				break;
			obj_unreg(v, 1);
		} else {
			/* at the target: poke the boundary itself - a late timer lands in the last slot and is removed again */
			if (rng_pct(&R, 60)) {
				int o = timer_register(-1);
				if (o >= 0) {
					struct iv_timer *t = objs[o].p;
					/* move it to the far future: unregister/re-register with a late expiry */
					iv_timer_unregister(t);
					t->expires.tv_sec += 10000000;
					objs[o].expires = t->expires;
					iv_timer_register(t);
					rh_push(ts_ns(&t->expires), o, objs[o].gen);
					if (rng_pct(&R, 70))
						obj_unreg(o, 1);
				}
			}
			pop_tidx++;
			pop_strategy = rng_n(&R, 4);
		}
		ops++;
	}
	return pop_tidx < pop_ntargets;
}

static void pop_setup(void)
{
	int i, base, r = rng_n(&R, 100);

	for (i = 0; i < 8; i++)
		pop_equal[i] = vt_now() + 1000000 * (int64_t)(1 + rng_n(&R, 50000));
	pop_ntargets = 0;
	pop_tidx = 0;
	pop_strategy = rng_n(&R, 4);
	pop_newest = -1;
	if (pop_big && r < 50)
		base = 16384;
	else if (pop_big && r < 60)
		base = 20000 + rng_n(&R, 20000);
	else if (r < 70)
		base = 128;
	else
		base = 4 + rng_n(&R, 60);
	pop_targets[pop_ntargets++] = base > 40 ? base - 1 - (int)rng_n(&R, 12) : base;
	for (i = 0, r = 4 + rng_n(&R, 24); i < (int)r; i++)
		pop_targets[pop_ntargets++] = base - 4 + (int)rng_n(&R, 9);
	if (rng_pct(&R, 50))
		pop_targets[pop_ntargets++] = rng_n(&R, base > 200 ? 200 : base);
}

/* the random action interpreter */
enum {
	A_FD_REG, A_FD_REGBAD, A_FD_UNREG, A_FD_SETH, A_CH_WRITE, A_CH_DRAIN, A_CH_FILL, A_CH_CLOSE,
	A_TIMER_REG, A_TIMER_UNREG, A_TASK_REG, A_TASK_UNREG, A_EV_REG, A_EV_UNREG, A_EV_POST,
	A_RAW_REG, A_RAW_UNREG, A_RAW_POST, A_SIG_REG, A_SIG_UNREG, A_SIG_RAISE, A_BURN, A_QUIT,
	A_STIM, A_FD_REUSE, A_TRAIN, A_TASKBURN, A_TIMER_CLEAR, A_NACT
};
static const unsigned char act_weight[A_NACT] = {
	[A_FD_REG] = 10, [A_FD_REGBAD] = 2, [A_FD_UNREG] = 8, [A_FD_SETH] = 12, [A_CH_WRITE] = 12, [A_CH_DRAIN] = 8,
	[A_CH_FILL] = 3, [A_CH_CLOSE] = 3, [A_TIMER_REG] = 10, [A_TIMER_UNREG] = 6, [A_TASK_REG] = 8,
	[A_TASK_UNREG] = 4, [A_EV_REG] = 3, [A_EV_UNREG] = 3, [A_EV_POST] = 6, [A_RAW_REG] = 2, [A_RAW_UNREG] = 2,
	[A_RAW_POST] = 5, [A_SIG_REG] = 2, [A_SIG_UNREG] = 2, [A_SIG_RAISE] = 4, [A_BURN] = 4, [A_QUIT] = 1,
	[A_STIM] = 6, [A_FD_REUSE] = 3, [A_TRAIN] = 4, [A_TASKBURN] = 3, [A_TIMER_CLEAR] = 2,
};

static int self_obj = -1;	/* object whose handler is running (or -1) */
/* a train (A_TRAIN) may carry a plan: at its n-th wake-up every timer is unregistered (the next poll has no time-out at all, after the
 * kernel timer was armed for the old earliest deadline), one or two wake-ups later a timer that is not earlier than that deadline is registered */


static void do_one_action(void)
{
	unsigned tot = 0, r;
	int a, o, c, s, hv[3], b;

	for (a = 0; a < A_NACT; a++)
		if (enabled_mask & (1u << a))
			tot += act_weight[a];
	if (!tot)
		return;
	r = rng_n(&R, tot);
	for (a = 0; a < A_NACT; a++) {
		if (!(enabled_mask & (1u << a)))
			continue;
		if (r < act_weight[a])
			break;
		r -= act_weight[a];
	}
	S.actions++;
	switch (a) {
	case A_FD_REG:
		if (pick_free_end(&c, &s) < 0)
			break;
		for (b = 0; b < 3; b++)
			hv[b] = rng_pct(&R, b == B_IN ? 70 : 35) ? 1 + (int)rng_n(&R, 2) : 0;
		fd_register(c, s, -1, rng_pct(&R, 40), hv);
		break;
	case A_FD_REGBAD:
		fd_register_bad();
		break;
	case A_FD_UNREG:
		o = pick_obj(K_FD, 1);
		if (o >= 0)
			obj_unreg(o, 1);
		break;
	case A_FD_REUSE:
		/* unregister X and register the same struct memory again at once, for the same or another descriptor */
		o = pick_obj(K_FD, 1);
		if (o < 0)
			break;
		c = objs[o].chan; s = objs[o].side;
		obj_unreg(o, 0);
		if (rng_pct(&R, 60)) {
			if (pick_free_end(&c, &s) < 0) { obj_free(o); break; }
		}
		if (!chans[c].open[s] || chans[c].obj[s] >= 0) { obj_free(o); break; }
		for (b = 0; b < 3; b++)
			hv[b] = rng_pct(&R, 50) ? 1 + (int)rng_n(&R, 2) : 0;
		if (fd_register(c, s, o, rng_pct(&R, 30), hv) < 0)
			obj_free(o);
		break;
	case A_FD_SETH:
		o = pick_obj(K_FD, 1);
		if (o < 0)
			break;
		b = rng_n(&R, 3);
		fd_set_handler(o, b, objs[o].hvar[b] && rng_pct(&R, 50) ? 0 : 1 + (int)rng_n(&R, 2));
		if (rng_pct(&R, 30)) {	/* clear and re-install between two polls */
			fd_set_handler(o, b, 0);
			fd_set_handler(o, b, 1 + (int)rng_n(&R, 2));
		}
		break;
	case A_CH_WRITE:
		if (!nchans) break;
		c = rng_n(&R, nchans); s = rng_n(&R, 2);
		trace("wr(c%d.%d) ", c, s); th(80, c, s);
		chan_write(c, s, 1 + rng_n(&R, 300));
		break;
	case A_CH_DRAIN:
		if (!nchans) break;
		c = rng_n(&R, nchans); s = rng_n(&R, 2);
		trace("drain(c%d.%d) ", c, s); th(81, c, s);
		chan_drain(c, s);
		break;
	case A_CH_FILL:
		if (!nchans) break;
		c = rng_n(&R, nchans); s = rng_n(&R, 2);
		trace("fill(c%d.%d) ", c, s); th(82, c, s);
		chan_fill(c, s);
		break;
	case A_CH_CLOSE:
		if (!nchans) break;
		c = rng_n(&R, nchans); s = rng_n(&R, 2);
		if (chans[c].open[s] && chans[c].obj[s] < 0 && chans[c].open[!s]) {
			trace("close(c%d.%d) ", c, s); th(83, c, s);
			chan_close_end(c, s);
		}
		break;
	case A_TIMER_REG:
		timer_register(-1);
		if (rng_pct(&R, 30)) timer_register(-1);
		break;
	case A_TIMER_UNREG:
		o = pick_obj(K_TIMER, 1);
		if (o < 0)
			break;
		if (rng_pct(&R, 35)) {
			/* cancel it (it may have expired in this very round and be waiting for its turn), look at it, and arm it again */
			obj_unreg(o, 0);
			if (objs[o].p != NULL && iv_timer_registered((struct iv_timer *)objs[o].p)) {
				mon_viol("C05", "registered-after-unregister", "timer", "iv_timer_registered() is true for timer #%d right after iv_timer_unregister() returned", o);
				mon_viol("C04", "registered-after-unregister", "timer", "iv_timer_registered() is true for timer #%d right after iv_timer_unregister() returned", o);
			}
			if (objs[o].p != NULL && rng_pct(&R, 70))
				timer_register(o);
			else
				obj_free(o);
		} else {
			obj_unreg(o, 1);
		}
		break;
	case A_TASK_REG:
		task_register(-1);
		break;
	case A_TASK_UNREG:
		o = pick_obj(K_TASK, 1);
		if (o >= 0)
			obj_unreg(o, rng_pct(&R, 70));
		break;
	case A_EV_REG:
		event_register();
		break;
	case A_EV_UNREG:
		o = pick_obj(K_EVENT, 1);
		if (o >= 0 && o != self_obj)
			obj_unreg(o, 1);
		else if (o >= 0)
			obj_unreg(o, 1);
		break;
	case A_EV_POST:
		o = pick_obj(K_EVENT, 0);
		if (o >= 0) {
			trace("post(#%d) ", o); th(51, o, 0);
			objs[o].posts++;
			S.ev_posts++;
			iv_event_post(objs[o].p);
		}
		break;
	case A_RAW_REG:
		raw_register();
		break;
	case A_RAW_UNREG:
		o = pick_obj(K_RAW, 1);
		if (o >= 0)
			obj_unreg(o, 1);
		break;
	case A_RAW_POST:
		o = pick_obj(K_RAW, 0);
		if (o >= 0) {
			trace("rawpost(#%d) ", o); th(61, o, 0);
			objs[o].posts++;
			S.raw_posts++;
			iv_event_raw_post(objs[o].p);
		}
		break;
	case A_SIG_REG:
		sig_register();
		break;
	case A_SIG_UNREG:
		o = pick_obj(K_SIG, 1);
		if (o >= 0)
			obj_unreg(o, 1);
		break;
	case A_SIG_RAISE:
		o = pick_obj(K_SIG, 0);
		if (o >= 0) {
			int i;
			trace("raise(%d) ", objs[o].signum); th(71, objs[o].signum, 0);
			for (i = 0; i < nreg[K_SIG]; i++)
				if (objs[reglist[K_SIG][i]].signum == objs[o].signum)
					objs[reglist[K_SIG][i]].posts++;
			S.sig_raised++;
			raise(objs[o].signum);
		}
		break;
	case A_BURN:
		{
			int64_t d = rng_pct(&R, 50) ? rng_n(&R, 20000) : rng_n(&R, 20000000);
			trace("burn(%lld) ", (long long)d); th(90, (uint64_t)d, 0);
			vt_burn(d);
			iv_invalidate_now();
		}
		break;
	case A_QUIT:
		if (in_main && !winding && rng_pct(&R, 30)) {
			trace("quit "); th(91, 0, 0);
			quit_requested = 1;
			S.quits++;
			nt_c07 = 1;
			iv_quit();
		}
		break;
	case A_TASKBURN:
		/* a task that keeps itself pending over several polls while (burnt) time runs past the earliest deadline */
		{
			int o2 = task_register(-1);
			if (o2 >= 0) {
				objs[o2].burner = 3 + rng_n(&R, 5);
				trace("taskburn(#%d) ", o2); th(95, o2, objs[o2].burner);
			}
		}
		break;
	case A_TRAIN:
		/* a far timer plus a train of descriptor wake-ups before it: the same deadline is seen on many waits */
		{
			int k, nn = 5 + rng_n(&R, 8);
			int64_t t0 = vt_now(), step = 1000 * (1 + (int64_t)rng_n(&R, 2000));
			o = pick_obj(K_FD, 0);
			if (o < 0 || !chans[objs[o].chan].open[!objs[o].side])
				break;
			if (!objs[o].hvar[B_IN])
				fd_set_handler(o, B_IN, 1);
			if (rng_pct(&R, 70))
				timer_register(-1);
			if (!pop_mode && !train_plan.active && nn >= 8 && rng_pct(&R, 45)) {
				int m = rh_min();
				train_plan.active = 1;
				train_plan.o = o;
				train_plan.cnt = 0;
				train_plan.clear_at = 6 + (int)rng_n(&R, nn - 7);
				train_plan.rereg_at = train_plan.clear_at + 1 + (int)rng_n(&R, 2);
				train_plan.T = m >= 0 ? ts_ns(&objs[m].expires) : vt_now();
				train_plan.mode = 0;
				S.train_plans++;
				if (rng_pct(&R, 30) && !winding) {
					/* terminal plan: the only timer is one parked 70-135 years away (seconds between 2^31 and 2^32), so the kernel timer gets
					 * armed for it; then a task that keeps re-registering itself must still be served at once; then the case winds down */
					int guard = 0, o2;
					struct stim_arg *sa = malloc(sizeof(*sa));
					while (nreg[K_TIMER] > 0 && guard++ < 4096)
						obj_unreg(reglist[K_TIMER][nreg[K_TIMER] - 1], 1);
					forced_expiry_sec = 2200000000LL + (int64_t)rng_n(&R, 2000000000u);
					o2 = timer_register(-1);
					if (o2 >= 0) {
						objs[o2].never = 1;
						train_plan.mode = 1;
						train_plan.never_o = o2;
						train_plan.never_gen = objs[o2].gen;
						train_plan.clear_at = 6 + (int)rng_n(&R, nn - 7);	/* here: when the self-registering task starts */
						train_plan.rereg_at = nn;				/* here: when the parked timer goes */
						S.terminal_plans++;
					}
					forced_expiry_sec = -1;
					sa->kind = 9; sa->c = 0; sa->s = 0; sa->n = 0;
					vt_stim_at(t0 + (nn + 3) * step, stim_fn, sa);
				}
			}
			trace("train(#%d,%d,%lld) ", o, nn, (long long)step); th(93, o, nn);
			for (k = 1; k <= nn; k++) {
				struct stim_arg *sa = malloc(sizeof(*sa));
				sa->kind = 0; sa->c = objs[o].chan; sa->s = !objs[o].side; sa->n = 1;
				vt_stim_at(t0 + k * step, stim_fn, sa);
			}
		}
		break;
	case A_TIMER_CLEAR:
		/* every timer goes: the next poll is made without any time-out (after the kernel timer may have been armed for the
		 * earliest of them); timers registered later must still be honoured */
		if (pop_mode)
			break;
		{
			int guard = 0;
			while (nreg[K_TIMER] > 0 && guard++ < 4096) {
				int v = reglist[K_TIMER][nreg[K_TIMER] - 1];
				if (v == self_obj && !objs[v].registered)
					break;
				obj_unreg(v, 1);
			}
			S.timer_clears++;
		}
		break;
	case A_STIM:
		if (nchans) {
			struct stim_arg *sa = malloc(sizeof(*sa));
			int64_t dt = rng_pct(&R, 60) ? rng_n(&R, 3000000) : rng_n(&R, 2000000000);
			sa->kind = rng_pct(&R, 65) ? 0 : 1 + (int)rng_n(&R, 3);
			sa->c = rng_n(&R, nchans);
			sa->s = rng_n(&R, 2);
			sa->n = 1 + rng_n(&R, 100);
			trace("stim(+%lld,k%d,c%d.%d) ", (long long)dt, sa->kind, sa->c, sa->s);
			th(92, (uint64_t)dt, sa->kind * 100 + sa->c * 2 + sa->s);
			vt_stim_at(vt_now() + dt, stim_fn, sa);
		}
		break;
	}
}

static void do_actions(void)
{
	int n;

	if (winding)
		return;
	n = rng_n(&R, 4);
	while (n-- > 0)
		do_one_action();
}

/* ------------------------------------------------------------------ */
/* call-backs */
static void cb_enter(int kind, int o)
{
	if (!in_main)
		mon_viol("C07", "callback-outside-main", kname[kind], "%s handler of #%d invoked while iv_main is not running", kname[kind], o);
	if (in_wait)
		mon_viol("C07", "callback-inside-wait", kname[kind], "%s handler of #%d invoked while the loop is inside its kernel wait", kname[kind], o);
	if (cb_depth++)
		mon_viol("C07", "nested-callback", kname[kind], "%s handler of #%d entered while another callback is running", kname[kind], o);
	cb_total++;
	cb_this_iter++;
	S.cb[kind]++;
	th(kind, o, 0);
	if (cb_total >= budget && !winding) {
		winding = 1;
		trigger_reap();
	}
	if (cb_total > 50 * budget + 2000) {
		mon_printf("NOTE harness: run-away case %ld (cb_total %ld) - inconclusive\n", mon_case_id, cb_total);
		_exit(2);
	}
}

static void cb_exit(void)
{
	cb_depth--;
	self_obj = -1;
	in_task_handler = 0;
}

/* returns object index or -1 (violation already reported) */
static int check_cookie(void *cookie, int kind, const char *what)
{
	unsigned gen;
	int o = cookie_obj(cookie, &gen);

	if (o < 0 || o >= nobjs || objs[o].kind != kind) {
		mon_viol("C03", "bad-cookie", what, "%s handler called with a cookie that belongs to no %s object", what, what);
		mon_viol("C01", "stale-handler", what, "%s handler called with foreign cookie", what);
		return -1;
	}
	if (objs[o].gen != gen || !objs[o].registered) {
		mon_viol("C01", "stale-handler", what, "%s handler of #%d invoked after its unregister call returned (cookie generation %u, live %u, registered %d)",
			 what, o, gen, objs[o].gen, objs[o].registered);
		if (kind == K_FD)
			mon_viol("C03", "not-registered", what, "fd handler of #%d invoked while the descriptor is not registered", o);
		return -1;
	}
	return o;
}

static void fd_cb(void *cookie, int band, int variant)
{
	int o = check_cookie(cookie, K_FD, "fd");
	struct obj *ob;

	cb_enter(K_FD, o);
	if (o < 0)
		goto out;
	ob = &objs[o];
	self_obj = o;
	S.fd_entries_checked++;
	if (ob->hvar[band] == 0)
		mon_viol("C03", "cleared-handler-called", bname[band], "%s handler of fd #%d invoked although it is NULL now", bname[band], o);
	else if (ob->hvar[band] != variant)
		mon_viol("C03", "wrong-handler-pointer", bname[band], "fd #%d band %s: variant %d entered, variant %d is installed", o, bname[band], variant, ob->hvar[band]);
	if (!band_cond(snapS[ob->osfd], band))
		mon_viol("C03", "not-ready", bname[band], "fd #%d (descriptor %d) band %s entered in iteration %ld but poll(2) after the kernel wait showed revents=0x%x",
			 o, ob->osfd, bname[band], iter, snapS[ob->osfd]);
	if (ob->entered_iter[band] == iter)
		mon_viol("C03", "twice-per-iteration", bname[band], "fd #%d band %s entered twice in iteration %ld", o, bname[band], iter);
	ob->entered_iter[band] = iter;
	ob->unserved_since[band] = -1;

	if (ob->reaper) {
		static int order[MAXOBJ];
		int i, n = 0;
		chan_drain(ob->chan, ob->side);
		winding = 2;
		{
			int k, q;
			for (k = 0; k < K_NKIND; k++)
				for (q = 0; q < nreg[k]; q++)
					order[n++] = reglist[k][q];
		}
		(void)i;
		while (n > 0) {
			int k = rng_n(&R, n);
			obj_unreg(order[k], 1);
			order[k] = order[--n];
		}
		goto out;
	}
	if (winding) {
		obj_unreg(o, 1);
		goto out;
	}
	/* usually consume the condition so that programs make progress */
	if (train_plan.active && o == train_plan.o && band == B_IN) {
		chan_drain(ob->chan, ob->side);		/* a planned train: this descriptor only wakes the loop up, nothing else changes */
	} else if (rng_pct(&R, 70)) {
		unsigned r = rng_n(&R, 100);
		if (band == B_IN && r < 75)
			chan_drain(ob->chan, ob->side);
		else if (band == B_OUT && r < 40)
			chan_fill(ob->chan, ob->side);
		else if (r < 85)
			fd_set_handler(o, band, 0);
		else
			obj_unreg(o, 1);
	}
	if (train_plan.active && train_plan.mode == 1 && o == train_plan.o && band == B_IN && !winding) {
		train_plan.cnt++;
		if (train_plan.cnt == train_plan.clear_at) {
			int o2 = task_register(-1);
			if (o2 >= 0)
				objs[o2].burner = 2 + rng_n(&R, 3);
		} else if (train_plan.cnt >= train_plan.rereg_at) {
			int v = train_plan.never_o;
			train_plan.active = 0;
			if (objs[v].kind == K_TIMER && objs[v].registered && objs[v].p != NULL && objs[v].gen == train_plan.never_gen)
				obj_unreg(v, 1);
		}
		goto out;
	}
	if (train_plan.active && o == train_plan.o && band == B_IN && !winding) {
		train_plan.cnt++;
		if (train_plan.cnt == train_plan.clear_at) {
			int guard = 0;
			while (nreg[K_TIMER] > 0 && guard++ < 4096)
				obj_unreg(reglist[K_TIMER][nreg[K_TIMER] - 1], 1);
			S.timer_clears++;
		} else if (train_plan.cnt >= train_plan.rereg_at) {
			int o2 = timer_register(-1);
			train_plan.active = 0;
			if (o2 >= 0 && !objs[o2].never && !objs[o2].sweeper_of) {
				struct iv_timer *t2 = objs[o2].p;
				int64_t base = train_plan.T > vt_now() ? train_plan.T : vt_now();
				int64_t e2 = base + (int64_t)rng_n(&R, 3000000);
				iv_timer_unregister(t2);
				t2->expires.tv_sec = e2 / VT_NS;
				t2->expires.tv_nsec = e2 % VT_NS;
				objs[o2].expires = t2->expires;
				iv_timer_register(t2);
				rh_push(ts_ns(&t2->expires), o2, objs[o2].gen);
			}
		}
		goto out;	/* no random actions from the wake-ups of a planned train: the earliest deadline stays what it is */
	}
	do_actions();
out:
	cb_exit();
}

static void timer_cb(void *cookie)
{
	int o = check_cookie(cookie, K_TIMER, "timer");
	struct obj *ob;
	struct timespec now;
	int i, q;

	cb_enter(K_TIMER, o);
	if (o < 0)
		goto out;
	ob = &objs[o];
	self_obj = o;
	S.timer_entries_checked++;
	if (round_start_iter != iter) {
		round_start_iter = iter;
		round_start_seq = ++evseq;
	} else {
		nt_c04 = 1;
		S.multi_timer_iters++;
	}
	if (ob->fired)
		mon_viol("C04", "timer-fired-twice", "timer", "timer #%d fired twice for one registration", o);
	now = iv_now;
	if (ts_ns(&now) < ts_ns(&ob->expires))
		mon_viol("C04", "timer-early", "timer", "timer #%d fired at loop time %lld before its expiry %lld", o,
			 (long long)ts_ns(&now), (long long)ts_ns(&ob->expires));
	if (ts_ns(&now) > vt_now())
		mon_viol("C04", "clock-ahead", "timer", "loop clock %lld is ahead of the system clock %lld", (long long)ts_ns(&now), (long long)vt_now());
	if (iv_timer_registered(ob->p))
		mon_viol("C04", "timer-still-registered", "timer", "iv_timer_registered() is true inside the handler of timer #%d", o);
	ob->fired = 1;
	set_registered(o, 0);	/* one-shot: already unregistered on entry */
	ob->gen++;
	/* C05: no strictly earlier timer, registered before this round began, may still be waiting */
	{
		int m = rh_min();
		if (m >= 0 && ts_ns(&objs[m].expires) < ts_ns(&ob->expires)) {
			if (objs[m].reg_seq < round_start_seq) {
				mon_viol("C05", "timer-order", "timer", "timer #%d (expiry %lld) fired while timer #%d with earlier expiry %lld, registered before the round, is still waiting",
					 o, (long long)ts_ns(&ob->expires), m, (long long)ts_ns(&objs[m].expires));
			} else {
				/* the earliest one was registered during this round: look through the others (rare) */
				for (q = 0; q < nreg[K_TIMER]; q++) {
					struct obj *t2 = &objs[reglist[K_TIMER][q]];
					if (t2->reg_seq < round_start_seq && ts_ns(&t2->expires) < ts_ns(&ob->expires)) {
						mon_viol("C05", "timer-order", "timer", "timer #%d (expiry %lld) fired while timer #%d with earlier expiry %lld, registered before the round, is still waiting",
							 o, (long long)ts_ns(&ob->expires), reglist[K_TIMER][q], (long long)ts_ns(&t2->expires));
						break;
					}
				}
			}
		}
	}

	if (ob->sweeper_of) {
		int tg = ob->sweeper_of - 1;
		ob->sweeper_of = 0;
		if (objs[tg].kind == K_TIMER && objs[tg].never && objs[tg].registered && objs[tg].p != NULL && objs[tg].gen == ob->sweeper_gen)
			obj_unreg(tg, 1);
	}
	if (winding) {
		obj_free(o);
		goto out;
	}
	if (pop_mode) {
		unsigned r = rng_n(&R, 100);
		if (r < 8) {
			timer_register(o);		/* re-arm the same struct from its handler */
		} else {
			obj_free(o);
			if (r < 16 && nreg[K_TIMER] > 0)
				obj_unreg(reglist[K_TIMER][rng_n(&R, nreg[K_TIMER])], 1);	/* another, possibly expired, timer */
		}
		goto out;
	}
	switch (rng_n(&R, 4)) {
	case 0:		/* free at once, then act */
		obj_free(o);
		S.frees_in_handler++;
		do_actions();
		break;
	case 1:		/* re-arm the same struct */
		do_actions();
		if (objs[o].p != NULL && !objs[o].registered)
			timer_register(o);
		break;
	default:
		do_actions();
		if (objs[o].p != NULL && !objs[o].registered)
			obj_free(o);
		break;
	}
out:
	cb_exit();
}

static void task_cb(void *cookie)
{
	int o = check_cookie(cookie, K_TASK, "task");
	struct obj *ob;

	cb_enter(K_TASK, o);
	if (o < 0)
		goto out;
	ob = &objs[o];
	self_obj = o;
	S.task_entries_checked++;
	if (iv_task_registered(ob->p))
		mon_viol("C06", "task-still-registered", "task", "iv_task_registered() is true inside the handler of task #%d", o);
	if (ob->ran_iter == iter)
		mon_viol("C06", "task-twice-between-polls", "task", "task #%d ran twice between two kernel polls (iteration %ld)", o, iter);
	if (ob->init_in_task_round == iter)
		mon_viol("C06", "task-chain-not-deferred", "task",
			 "task #%d was initialised and registered by a task handler of the current round and ran before the next kernel poll: a chain of such tasks keeps the loop from polling", o);
	in_task_handler = 1;
	ob->ran_iter = iter;
	set_registered(o, 0);
	ob->gen++;
	if (winding) {
		obj_free(o);
		goto out;
	}
	if (ob->driver) {
		if (pop_step())
			task_register(o);
		else
			obj_free(o);
		goto out;
	}
	if (ob->burner > 0) {
		int m = rh_min();
		int64_t d = m >= 0 ? ts_ns(&objs[m].expires) - vt_now() : 0;
		ob->burner--;
		if (d > 0) {
			vt_burn(ob->burner > 1 ? d / 3 : d + 1000);	/* approach, then pass, the earliest deadline while the task stays pending */
			iv_invalidate_now();
		}
		task_register(o);
		goto out;
	}
	switch (rng_n(&R, 5)) {
	case 0:
		obj_free(o);
		S.frees_in_handler++;
		do_actions();
		break;
	case 1: case 2:		/* re-register self (deferred until after the next poll) */
		do_actions();
		if (objs[o].p != NULL && !objs[o].registered)
			task_register(o);
		break;
	case 3:		/* re-register another task that already ran this round */
		{
			int i;
			for (i = nobjs > 256 ? nobjs - 256 : 0; i < nobjs; i++)
				if (objs[i].kind == K_TASK && !objs[i].registered && objs[i].p != NULL && i != o && objs[i].ran_iter == iter) {
					task_register(i);
					break;
				}
		}
		do_actions();
		break;
	default:
		do_actions();
		break;
	}
	/* tasks that stay unregistered keep their memory until the end of the case (they may be re-registered by others) */
out:
	cb_exit();
}

static void event_cb(void *cookie)
{
	int o = check_cookie(cookie, K_EVENT, "event");
	struct obj *ob;

	cb_enter(K_EVENT, o);
	if (o < 0)
		goto out;
	ob = &objs[o];
	self_obj = o;
	ob->entries++;
	if (ob->entries > ob->posts)
		mon_viol("C08", "more-entries-than-posts", "event", "event #%d: %ld handler entries for %ld posts", o, ob->entries, ob->posts);
	if (winding)
		goto out;
	if (rng_pct(&R, 25)) {
		obj_unreg(o, 1);
		S.frees_in_handler++;
	} else if (rng_pct(&R, 30)) {
		ob->posts++;
		S.ev_posts++;
		iv_event_post(ob->p);
	}
	do_actions();
out:
	cb_exit();
}

static void raw_cb(void *cookie)
{
	int o = check_cookie(cookie, K_RAW, "raw");
	struct obj *ob;

	cb_enter(K_RAW, o);
	if (o < 0)
		goto out;
	ob = &objs[o];
	self_obj = o;
	ob->entries++;
	if (ob->posts == 0)
		mon_viol("C09", "entry-without-post", "raw", "raw event #%d handler invoked although it was never posted", o);
	if (winding)
		goto out;
	if (rng_pct(&R, 25)) {
		obj_unreg(o, 1);
		S.frees_in_handler++;
	}
	do_actions();
out:
	cb_exit();
}

static void sig_cb(void *cookie)
{
	int o = check_cookie(cookie, K_SIG, "sig");
	struct obj *ob;

	cb_enter(K_SIG, o);
	if (o < 0)
		goto out;
	ob = &objs[o];
	self_obj = o;
	ob->entries++;
	/* (a run without a raise of its own is legitimate: an exclusive interest that is unregistered hands its noted delivery over; C10 is judged by sig.c) */
	if (winding)
		goto out;
	if (rng_pct(&R, 25)) {
		obj_unreg(o, 1);
		S.frees_in_handler++;
	}
	do_actions();
out:
	cb_exit();
}

/* ------------------------------------------------------------------ */
/* shim hooks: iteration boundaries */
static int rk_nonempty;

static void iteration_end_checks(void)
{
	int i, b, q;

	if (iter < 0)
		return;
	/* C02-B: everything the kernel reported for a wanted band was dispatched or excused */
	for (q = 0; q < nreg[K_FD]; q++) {
		struct obj *ob;
		i = reglist[K_FD][q];
		ob = &objs[i];
		for (b = 0; b < 3; b++) {
			if (ob->must_enter_iter[b] != iter)
				continue;
			if (ob->entered_iter[b] == iter || ob->excuse_iter[b] == iter || ob->hvar[b] == 0)
				continue;
			mon_viol("C02", "reported-not-dispatched", bname[b],
				 "fd #%d (descriptor %d) band %s was reported by the kernel in iteration %ld with a handler set, but the handler was not invoked",
				 i, ob->osfd, bname[b], iter);
		}
	}
	/* C07 f/g: wake-ups that dispatch nothing must not repeat */
	if (!eintr_this_iter) {
		if (last_wait_ret_events > 0 && cb_this_iter == 0 && !stim_applied_iter) {
			if (++spin_events == 17)
				mon_viol("C07", "spin-events", g_method, "%d consecutive iterations in which the kernel wait returned events but no callback ran", spin_events);
		} else {
			spin_events = 0;
		}
		if (last_wait_ret_events == 0 && last_wait_timeout_zero && cb_this_iter == 0) {
			if (++spin_zero == 17)
				mon_viol("C07", "spin-zero-timeout", g_method, "%d consecutive zero-time-out polls that returned nothing and dispatched nothing", spin_zero);
		} else {
			spin_zero = 0;
		}
	}
}

void hk_wait_enter(struct vt_wait *w)
{
	int i, b, q, ntasks = 0, limit;
	int64_t E = VT_INF, V = w->v_enter;
	int nsh;

	iteration_end_checks();
	iter++;
	in_wait = 1;
	S.waits++;
	if (iter > 400 + 40 * budget) {
		/* the loop goes round and round: the spin / starvation rules have reported it, or the case is inconclusive */
		mon_printf("NOTE case %ld does not terminate (%ld iterations, %ld callbacks)\n", mon_case_id, iter, cb_total);
		if (getenv("CORE_DEBUG")) {
			int z;
			for (z = 0; z < nobjs; z++)
				if (objs[z].registered)
					mon_printf("NOTE dbg registered obj %d kind=%d never=%d sweeper_of=%d reaper=%d driver=%d winding=%d pop=%d\n", z, objs[z].kind, objs[z].never, objs[z].sweeper_of, objs[z].reaper, objs[z].driver, winding, pop_mode);
		}
		mon_printf("CASE id=%ld runaway=1 viol=%d\n", mon_case_id, mon_viol_case);
		_exit(mon_viol_case ? 3 : 2);
	}
	S.wait_entries_checked++;
	cb_this_iter = 0;
	stim_applied_iter = 0;
	eintr_this_iter = 0;

	if (!in_main)
		mon_viol("C07", "wait-outside-main", g_method, "kernel wait entered while iv_main is not running");
	if (cb_depth)
		mon_viol("C07", "wait-inside-callback", g_method, "kernel wait entered from inside a callback");
	if (quit_requested)
		mon_viol("C07", "wait-after-quit", g_method, "kernel wait entered although iv_quit() was called in this run of iv_main");
	nsh = shadow_count();
	if (nsh == 0) {
		empty_shadow_waits++;
		if (w->deadline > V)
			mon_viol("C07", "sleep-with-nothing-registered", g_method, "loop is about to sleep (time-out %lld ns) although nothing is registered", (long long)w->timeout_ns);
		else if (empty_shadow_waits > 2)
			mon_viol("C07", "no-return-with-nothing-registered", g_method, "%d kernel waits entered with nothing registered", empty_shadow_waits);
	} else {
		empty_shadow_waits = 0;
	}

	/* ground truth of every harness descriptor */
	snapshot(snapE);

	rk_nonempty = 0;
	limit = g_is_epoll ? 3 : 1;
	for (q = 0; q < nreg[K_FD]; q++) {
		struct obj *ob;
		i = reglist[K_FD][q];
		ob = &objs[i];
		for (b = 0; b < 3; b++) {
			if (ob->hvar[b] && band_cond(snapE[ob->osfd], b)) {
				rk_nonempty = 1;
				if (ob->unserved_since[b] < 0)
					ob->unserved_since[b] = iter;
				else if (iter - ob->unserved_since[b] >= limit + (long)(vt_fault_fired() - case_inj0) + eintr_natural)
					mon_viol("C02", "starved", bname[b],
						 "fd #%d (descriptor %d) band %s has been wanted and ready (revents 0x%x) since iteration %ld and was not served by iteration %ld",
						 i, ob->osfd, bname[b], snapE[ob->osfd], ob->unserved_since[b], iter);
			} else {
				ob->unserved_since[b] = -1;
			}
		}
	}
	i = rh_min();
	if (i >= 0) {
		struct obj *ob = &objs[i];
		E = ts_ns(&ob->expires);
		/* promptness is watched on the earliest timer (the others follow by the order rule) */
		if (E <= V) {
			if (ob->due_seen_iter < 0)
				ob->due_seen_iter = iter;
			else if (iter - ob->due_seen_iter >= 2 + (long)(vt_fault_fired() - case_inj0) + eintr_natural)
				mon_viol("C05", "timer-not-prompt", "timer", "timer #%d was due at wait %ld and has still not fired at wait %ld", i, ob->due_seen_iter, iter);
		}
	}
	ntasks = nreg[K_TASK];
	if (rk_nonempty)
		S.rk_nonempty++;

	/* C04: the wake deadline never lies beyond the earliest expiry (plus millisecond rounding) */
	if (E != VT_INF) {
		int64_t lim = E > V ? E : V;
		S.deadline_checks++;
		if (w->ms_granular)
			lim += 999999;
		if (w->deadline > lim) {
			mon_viol("C04", "oversleep", g_method,
				 "wake deadline %lld lies beyond the earliest timer expiry %lld (now %lld, requested time-out %lld ns, %s)",
				 (long long)w->deadline, (long long)E, (long long)V, (long long)w->timeout_ns,
				 w->timeout_ns < 0 ? "infinite wait" : "timed wait");
			mon_viol("C07", "blocks-while-timer-due", g_method,
				 "the loop will stay blocked until %lld although a timer is due at %lld (now %lld)",
				 (long long)w->deadline, (long long)E, (long long)V);
			mon_viol("C05", "oversleep", g_method,
				 "the wait deadline %lld ignores the earliest registered expiry %lld: another timer decides when this one fires",
				 (long long)w->deadline, (long long)E);
			if (task_poll_run > 0)
				mon_viol("C06", "timer-not-serviced-after-task-burst", g_method,
					 "after %d consecutive non-blocking polls made because tasks were pending, the loop blocks until %lld although a timer is due at %lld (now %lld): the tasks kept the timer from being serviced",
					 task_poll_run, (long long)w->deadline, (long long)E, (long long)V);
		}
		if (w->timeout_ns < 0) {
			if (!tfd_engaged) { tfd_engaged = 1; S.tfd_engaged_cases++; }
			nt_c04 = 1;
		}
	}
	/* C06: with a task pending the loop must not sleep */
	if (ntasks && w->deadline > V) {
		mon_viol("C06", "sleep-with-task-pending", g_method, "%d task(s) registered but the wake deadline %lld is after now %lld (time-out %lld ns)",
			 ntasks, (long long)w->deadline, (long long)V, (long long)w->timeout_ns);
		mon_viol("C07", "blocks-while-task-pending", g_method, "%d task(s) registered but the loop blocks until %lld (now %lld)",
			 ntasks, (long long)w->deadline, (long long)V);
	}
	last_wait_timeout_zero = (w->timeout_ns == 0);
	/* length of the current run of non-blocking polls that were made with tasks pending */
	if (w->timeout_ns == 0 && ntasks > 0)
		task_poll_run++;
	else if (w->timeout_ns != 0)
		task_poll_run = 0;
}

void hk_wait_block(struct vt_wait *w);
void hk_wait_block(struct vt_wait *w)
{
	/* the zero-time-out probe found nothing and the loop is going to sleep */
	int i, b, q;
	(void)w;
	if (!rk_nonempty)
		return;
	for (q = 0; q < nreg[K_FD]; q++) {
		struct obj *ob;
		i = reglist[K_FD][q];
		ob = &objs[i];
		for (b = 0; b < 3; b++)
			if (ob->hvar[b] && band_cond(snapE[ob->osfd], b)) {
				mon_viol("C02", "sleep-on-ready", bname[b],
					 "loop goes to sleep (time-out %lld ns) although fd #%d (descriptor %d) band %s is wanted and ready (revents 0x%x)",
					 (long long)w->timeout_ns, i, ob->osfd, bname[b], snapE[ob->osfd]);
				/* wake the loop instead of hanging: make the case end */
				winding = 1;
				trigger_reap();
				return;
			}
	}
}

static int ptr_to_fdobj(void *p)
{
	int q;
	for (q = 0; q < nreg[K_FD]; q++)
		if (objs[reglist[K_FD][q]].p == p)
			return reglist[K_FD][q];
	return -1;
}

static void note_reported(int o, int in, int out, int err)
{
	struct obj *ob = &objs[o];
	int r[3] = { in, out, err }, b;
	for (b = 0; b < 3; b++)
		if (r[b] && ob->hvar[b]) {
			ob->must_enter_iter[b] = iter;
			S.b_obligations++;
		}
}

void hk_wait_return(struct vt_wait *w)
{
	int i;

	in_wait = 0;
	if (getenv("CORE_DEBUG"))
		mon_printf("NOTE dbg wait iter=%ld kind=%d timeout=%lld ret=%d err=%d injected=%d cb_prev=%ld faults=%llu natural=%d\n", iter, w->kind,
			   (long long)w->timeout_ns, w->ret, w->err, w->injected, cb_this_iter, (unsigned long long)(vt_fault_fired() - case_inj0), eintr_natural);
	if (w->injected) {
		eintr_this_iter = 1;
		S.eintr_seen++;
		last_wait_ret_events = 0;
		return;
	}
	last_wait_ret_events = w->ret > 0 ? w->ret : 0;
	if (w->ret < 0) {
		eintr_this_iter = 1;
		eintr_natural++;
		S.eintr_seen++;
		return;
	}
	snapshot(snapS);
	if (w->kind == VT_EPOLL_PWAIT2 || w->kind == VT_EPOLL_WAIT) {
		for (i = 0; i < w->ret; i++) {
			int o = ptr_to_fdobj(w->ev[i].data.ptr);
			uint32_t e = w->ev[i].events;
			if (o >= 0)
				note_reported(o, !!(e & (EPOLLIN | EPOLLERR | EPOLLHUP)), !!(e & (EPOLLOUT | EPOLLERR | EPOLLHUP)), !!(e & (EPOLLERR | EPOLLHUP)));
		}
	} else {
		for (i = 0; i < w->npfd; i++) {
			short e = w->pfd[i].revents;
			int fd = w->pfd[i].fd, c, o;
			if (!e || fd < 0 || fd >= MAXFDN || (c = fd2chan[fd]) < 0)
				continue;
			o = chans[c].obj[fd2side[fd]];
			if (o >= 0 && objs[o].registered)
				note_reported(o, !!(e & (POLLIN | POLLERR | POLLHUP)), !!(e & (POLLOUT | POLLERR | POLLHUP)), !!(e & (POLLERR | POLLHUP)));
		}
	}
}

static int kicks_left;

int hk_quiescent(void)
{
	if (!reap_triggered && !winding && kicks_left > 0 && nchans > 0 && cb_total < budget) {
		/* keep the program going: the outside world does something while the loop sleeps */
		int k, n = 1 + rng_n(&R, 3);
		kicks_left--;
		for (k = 0; k < n; k++) {
			int c = rng_n(&R, nchans), s = rng_n(&R, 2);
			if (rng_pct(&R, 85))
				chan_write(c, s, 1 + rng_n(&R, 64));
			else if (chans[c].open[s] && chans[c].obj[s] < 0 && chans[c].open[!s])
				chan_close_end(c, s);
			th(94, c, s);
		}
		stim_applied_iter = 1;
		S.stim_applied++;
		return 1;
	}
	if (!reap_triggered) {
		winding = winding ? winding : 1;
		trigger_reap();
		stim_applied_iter = 1;
		return 1;
	}
	return 0;
}

void hk_dead_end(void)
{
	mon_viol("C07", "hang", g_method, "loop sleeps for ever: tear-down was requested (registered objects in shadow: %d, quit requested: %d) and nothing can wake it", shadow_count(), quit_requested);
	if (shadow_count() > 0)
		mon_viol("C02", "hang", g_method, "loop sleeps for ever although the tear-down descriptor is readable");
	mon_printf("CASE id=%ld dead_end=1\n", mon_case_id);
	_exit(3);
}

void hk_injected(const char *call, int err)
{
	(void)call; (void)err;
}

/* ------------------------------------------------------------------ */
static int count_open_fds(void)
{
	DIR *d = opendir("/proc/self/fd");
	struct dirent *de;
	int n = 0;
	if (d == NULL)
		return -1;
	while ((de = readdir(d)) != NULL)
		if (de->d_name[0] != '.')
			n++;
	closedir(d);
	return n - 1;	/* the directory descriptor itself */
}

static int base_fds = -1;
static size_t base_heap;
static int heap_warm;

static unsigned swarm_mask(void)
{
	unsigned m = 0;
	int a;

	/* each program enables a random subset of action kinds */
	for (a = 0; a < A_NACT; a++)
		if (rng_pct(&R, 60))
			m |= 1u << a;
	/* focus bias */
	if (!strcmp(g_focus, "C01"))
		m |= (1u << A_FD_UNREG) | (1u << A_TIMER_UNREG) | (1u << A_TASK_UNREG) | (1u << A_EV_UNREG) | (1u << A_CH_WRITE) | (1u << A_FD_REG);
	else if (!strcmp(g_focus, "C02") || !strcmp(g_focus, "C03"))
		m |= (1u << A_FD_REG) | (1u << A_FD_SETH) | (1u << A_CH_WRITE) | (1u << A_FD_REUSE) | (1u << A_CH_DRAIN);
	else if (!strcmp(g_focus, "C04") || !strcmp(g_focus, "C05"))
		m |= (1u << A_TIMER_REG) | (1u << A_TIMER_UNREG) | (1u << A_STIM) | (1u << A_CH_WRITE) | (1u << A_FD_REG) | (1u << A_TRAIN) | (1u << A_TASKBURN) | (1u << A_TIMER_CLEAR);
	else if (!strcmp(g_focus, "C06"))
		m |= (1u << A_TASKBURN) | (1u << A_TRAIN) | (1u << A_CH_WRITE) |
		     (1u << A_TASK_REG) | (1u << A_TASK_UNREG) | (1u << A_FD_REG) | (1u << A_TIMER_REG);
	else if (!strcmp(g_focus, "C07"))
		m |= (1u << A_QUIT) | (1u << A_FD_REGBAD) | (1u << A_FD_UNREG) | (1u << A_EV_REG) | (1u << A_EV_UNREG);
	return m;
}

static void run_case(long id)
{
	int i, hv[3], c, s, ninit;
	uint64_t prop_sig, inj0 = vt_fault_fired();

	case_inj0 = inj0;
	train_plan.active = 0;

	task_poll_run = 0;
	mon_case_id = id;
	mon_viol_case = 0;
	mon_watchdog(pop_big ? 300 : 60);
	rng_seed(&R, g_seed, (uint64_t)id);
	vt_reset_case(mix64(g_seed ^ (uint64_t)id * 7919));
	vt_set_single(1);

	nobjs = 0; nchans = 0;
	memset(nreg, 0, sizeof(nreg)); nreg_total = 0;
	rh_n = 0;
	memset(fd2chan, -1, sizeof(fd2chan));
	iter = -1; in_main = 0; cb_depth = 0; in_wait = 0; quit_requested = 0;
	cb_total = 0; cb_this_iter = 0; winding = 0; reap_triggered = 0; reaper_obj = -1;
	trace_hash = 0x1234; round_start_iter = -1; stim_applied_iter = 0;
	spin_events = spin_zero = 0; empty_shadow_waits = 0; eintr_this_iter = 0; eintr_natural = 0; case_max_timers = 0;
	last_wait_ret_events = 0; last_wait_timeout_zero = 0;
	nt_c01 = nt_c02 = nt_c03 = nt_c04 = nt_c05 = nt_c06 = nt_c07 = 0; tfd_engaged = 0;
	self_obj = -1;
	sample_len = 0;
	enabled_mask = swarm_mask();
	if (g_nosig)
		enabled_mask &= ~((1u << A_SIG_REG) | (1u << A_SIG_UNREG) | (1u << A_SIG_RAISE));
	budget = g_budget_base / 2 + rng_n(&R, g_budget_base * 2);
	pop_mode = rng_pct(&R, !strcmp(g_focus, "C05") ? 60 : !strcmp(g_focus, "C04") ? 15 : 3);
	kicks_left = rng_n(&R, 40);

	iv_init();

	/* the tear-down descriptor (an ordinary registered fd as far as the monitors are concerned) */
	c = chan_new();
	hv[0] = 1; hv[1] = 0; hv[2] = 0;
	s = chans[c].type == 0 ? 0 : (int)rng_n(&R, 2);
	reaper_obj = fd_register(c, s, -1, 0, hv);
	objs[reaper_obj].reaper = 1;

	trace("setup: ");
	ninit = 1 + rng_n(&R, 24);
	if (pop_mode) {
		int o, mx = 0;
		pop_setup();
		for (i = 0; i < pop_ntargets; i++)
			if (pop_targets[i] > mx)
				mx = pop_targets[i];
		budget = 6 * mx + 4000;
		enabled_mask = (1u << A_BURN) | (1u << A_CH_WRITE);
		ninit = rng_n(&R, 3);
		o = task_register(-1);
		objs[o].driver = 1;
		nt_c05 = 1;
		S.pop_cases++;
		trace("population(targets %d.. n=%d) ", pop_targets[0], pop_ntargets);
	}
	{
		int save = winding;
		for (i = 0; i < ninit; i++)
			do_one_action();
		winding = save;
	}
	trace("| run: ");

	for (;;) {
		quit_requested = 0;
		in_main = 1;
		iv_main();
		in_main = 0;
		iteration_end_checks();
		iter++;		/* what follows belongs to no iteration */
		{
			/* while iv_main is not running nothing is owed: the starvation / promptness clocks start again */
			int q, b2;
			for (q = 0; q < nreg[K_FD]; q++)
				for (b2 = 0; b2 < 3; b2++)
					objs[reglist[K_FD][q]].unserved_since[b2] = -1;
			for (q = 0; q < nreg[K_TIMER]; q++)
				objs[reglist[K_TIMER][q]].due_seen_iter = -1;
		}
		if (!quit_requested && shadow_count() != 0)
			mon_viol("C07", "main-returned-early", g_method, "iv_main returned although %d object(s) are registered and iv_quit() was not called", shadow_count());
		if (cb_depth)
			mon_viol("C07", "main-returned-inside-callback", g_method, "iv_main returned with a callback on the stack");
		if (quit_requested && shadow_count() != 0 && !winding && rng_pct(&R, 60)) {
			S.reenters++;
			trace("| re-enter: ");
			continue;
		}
		break;
	}

	/* clean up from outside the loop */
	winding = 2;
	{
		int k;
		for (k = 0; k < K_NKIND; k++)
			while (nreg[k] > 0)
				obj_unreg(reglist[k][nreg[k] - 1], 1);
	}
	for (i = 0; i < nobjs; i++)
		obj_free(i);
	iv_deinit();
	for (c = 0; c < nchans; c++) {
		chan_close_end(c, 0);
		chan_close_end(c, 1);
	}

	/* C18 hygiene: descriptors and heap return to the baseline after every init..deinit cycle */
	{
		int nf = count_open_fds();
		S.hyg_checks++;
		if (base_fds < 0) {
			base_fds = nf;
		} else if (nf > base_fds) {
			/* a process-wide one-time acquisition (e.g. the shared kick descriptor kept after a failed
			 * registration) is not growth; descriptors that keep accumulating over the cycles are */
			static int growth_events;
			if (++growth_events >= 3)
				mon_viol("C18", "fd-leak", g_method, "%d descriptors open after iv_deinit, %d after the previous cycles (grew %d times)", nf, base_fds, growth_events);
			else
				mon_printf("NOTE descriptor count after iv_deinit went from %d to %d (one-time, case %ld)\n", base_fds, nf, mon_case_id);
			base_fds = nf;
		} else if (nf < base_fds) {
			base_fds = nf;
		}
		if (__sanitizer_get_current_allocated_bytes) {
			size_t h = __sanitizer_get_current_allocated_bytes();
			if (heap_warm < 3) {
				heap_warm++;
				base_heap = h;
			} else if (h > base_heap + 4096) {
				mon_viol("C18", "heap-growth", g_method, "live heap %zu bytes after iv_deinit, baseline %zu", h, base_heap);
				base_heap = h;
			} else if (h < base_heap) {
				base_heap = h;
			}
		}
	}

	S.cases++;
	if ((uint64_t)tfd_engaged && 0) {}
	prop_sig = trace_hash;
	if (nt_c01) { S.nt[1]++; sig_add(1, prop_sig); }
	if (nt_c02) { S.nt[2]++; sig_add(2, prop_sig); }
	if (nt_c03) { S.nt[3]++; sig_add(3, prop_sig); }
	if (nt_c04) { S.nt[4]++; sig_add(4, prop_sig); }
	if (case_max_timers >= 2) { nt_c05 = 1; }
	if (pop_mode && (uint64_t)case_max_timers > S.pop_max) S.pop_max = case_max_timers;
	if (nt_c05) { S.nt[5]++; sig_add(5, prop_sig); }
	if (nt_c06) { S.nt[6]++; sig_add(6, prop_sig); }
	if (nt_c07) { S.nt[7]++; sig_add(7, prop_sig); }
	sig_add(0, prop_sig);
	last_trace = trace_hash;
	last_iters = iter;
	if (!g_quiet_case)
		mon_printf("CASE id=%ld trace=%016llx nt=0x%x cb=%ld iters=%ld inj=%llu viol=%d\n", id, (unsigned long long)trace_hash,
			   (nt_c01 << 1) | (nt_c02 << 2) | (nt_c03 << 3) | (nt_c04 << 4) | (nt_c05 << 5) | (nt_c06 << 6) | (nt_c07 << 7), cb_total, iter,
			   (unsigned long long)(vt_fault_fired() - inj0), mon_viol_case);
	if (sample_left > 0 && sample_len > 0) {
		sample_left--;
		mon_printf("SAMPLE case=%ld method=%s %s\n", id, g_method, sample_buf);
	}
}

static void noop_handler(int s) { (void)s; }

int main(int argc, char **argv)
{
	long first = arg_ll(argc, argv, "--first", 0), n = arg_ll(argc, argv, "--cases", 100), i;
	int k;

	g_seed = (uint64_t)arg_ll(argc, argv, "--seed", 1);
	g_focus = arg_str(argc, argv, "--focus", "");
	g_budget_base = (int)arg_ll(argc, argv, "--budget", 120);
	sample_left = (int)arg_ll(argc, argv, "--samples", 1);

	pop_big = (int)arg_ll(argc, argv, "--big", 0);
	rh_push(0, 0, 0);
	rh_n = 0;
	for (k = 0; k < K_NKIND; k++)
		reglist[k] = malloc(sizeof(int) * MAXOBJ);
	vt_init();
	iv_set_fatal_msg_handler(fatal_msg);
	signal(SIGPIPE, SIG_IGN);
	{
		struct sigaction sa;
		memset(&sa, 0, sizeof(sa));
		sa.sa_handler = noop_handler;
		sigaction(SIGWINCH, &sa, NULL);
	}

	/* a descriptor number that is guaranteed closed, and a regular file */
	dead_fd = 1000;
	{
		int fd = open("/dev/null", O_RDONLY);
		dup2(fd, dead_fd);
		__real_close(fd);
		__real_close(dead_fd);
		reg_file_fd = open("/proc/self/exe", O_RDONLY);
		if (reg_file_fd >= 0) {
			dup2(reg_file_fd, 1001);
			__real_close(reg_file_fd);
			reg_file_fd = 1001;
		}
	}

	/* learn the poll method */
	iv_init();
	g_method = iv_poll_method_name();
	g_is_epoll = !strncmp(g_method, "epoll", 5);
	iv_deinit();
	base_fds = count_open_fds();

	g_nosig = arg_flag(argc, argv, "--nosig");
	g_no_eintr_stim = arg_flag(argc, argv, "--no-eintr-stim");
	if (arg_flag(argc, argv, "--c15-eintr")) {
		/* C15: for every k, the k-th kernel wait of the case fails with EINTR; the callback trace must not change */
		long maxk = arg_ll(argc, argv, "--maxk", 80);
		unsigned long long evals = 0, fired = 0, mism = 0;
		g_nosig = 1;		/* the order of several interests for one signal depends on their addresses */
		for (i = first; i < first + n; i++) {
			uint64_t base;
			long nw, k2;
			char plan[64];
			vt_fault_clear();
			run_case(i);
			base = last_trace;
			nw = last_iters;
			g_quiet_case = 1;
			for (k2 = 1; k2 <= nw && k2 <= maxk; k2++) {
				uint64_t f0;
				vt_fault_clear();
				snprintf(plan, sizeof(plan), "wait:EINTR@%ld", k2);
				vt_fault_plan(plan);
				f0 = vt_fault_fired();
				run_case(i);
				evals++;
				if (vt_fault_fired() > f0)
					fired++;
				/* (an interrupted wait lets deferred tasks run before the descriptors are served, so the traces of these
				 * order-dependent random programs legitimately differ; the schedule-independent comparison is done by sum.c -
				 * here the monitors of C01-C07 stay armed while every wait of the case is interrupted in turn) */
				if (last_trace != base)
					mism++;
			}
			g_quiet_case = 0;
			vt_fault_clear();
		}
		mon_printf("STAT c15_eintr_runs=%llu c15_eintr_fired=%llu c15_eintr_trace_differs=%llu\n", evals, fired, mism);
	} else {
		for (i = first; i < first + n; i++)
			run_case(i);
	}

	mon_printf("STAT method=%s cases=%llu waits=%llu cb_fd=%llu cb_timer=%llu cb_task=%llu cb_event=%llu cb_raw=%llu cb_sig=%llu "
		   "fd_entries_checked=%llu wait_entries_checked=%llu timer_entries_checked=%llu task_entries_checked=%llu "
		   "unreg_of_due=%llu handler_changes=%llu reinstall_while_ready=%llu tfd_engaged_cases=%llu multi_timer_iters=%llu "
		   "failed_reg=%llu quits=%llu reenters=%llu deadline_checks=%llu rk_nonempty=%llu b_obligations=%llu eintr_seen=%llu "
		   "sig_raised=%llu ev_posts=%llu raw_posts=%llu actions=%llu frees_in_handler=%llu struct_reuse=%llu timer_rereg_without_init=%llu timers_more_than_2e31_s_away=%llu all_timers_unregistered_at_once=%llu hyg_checks=%llu "
		   "stim_applied=%llu pop_cases=%llu pop_max=%llu max_timers=%llu quiescences=%llu time_advances=%llu timerfd_fires=%llu injected=%llu successful_calls_leaving_stale_errno=%llu violations=%d\n",
		   g_method, (unsigned long long)S.cases, (unsigned long long)S.waits,
		   (unsigned long long)S.cb[K_FD], (unsigned long long)S.cb[K_TIMER], (unsigned long long)S.cb[K_TASK],
		   (unsigned long long)S.cb[K_EVENT], (unsigned long long)S.cb[K_RAW], (unsigned long long)S.cb[K_SIG],
		   (unsigned long long)S.fd_entries_checked, (unsigned long long)S.wait_entries_checked,
		   (unsigned long long)S.timer_entries_checked, (unsigned long long)S.task_entries_checked,
		   (unsigned long long)S.unreg_of_due, (unsigned long long)S.handler_changes, (unsigned long long)S.reinstall_while_ready,
		   (unsigned long long)S.tfd_engaged_cases, (unsigned long long)S.multi_timer_iters, (unsigned long long)S.failed_reg,
		   (unsigned long long)S.quits, (unsigned long long)S.reenters, (unsigned long long)S.deadline_checks,
		   (unsigned long long)S.rk_nonempty, (unsigned long long)S.b_obligations, (unsigned long long)S.eintr_seen,
		   (unsigned long long)S.sig_raised, (unsigned long long)S.ev_posts, (unsigned long long)S.raw_posts,
		   (unsigned long long)S.actions, (unsigned long long)S.frees_in_handler, (unsigned long long)S.struct_reuse, (unsigned long long)S.timer_rereg_without_init, (unsigned long long)S.never_timers, (unsigned long long)S.timer_clears,
		   (unsigned long long)S.hyg_checks, (unsigned long long)S.stim_applied,
		   (unsigned long long)S.pop_cases, (unsigned long long)S.pop_max, (unsigned long long)S.max_timers,
		   (unsigned long long)vt_stats.quiescences, (unsigned long long)vt_stats.time_advances,
		   (unsigned long long)vt_stats.timerfd_fires, (unsigned long long)vt_stats.injected, (unsigned long long)vt_stats.stale_errno, mon_viol_total);
	for (k = 0; k < 8; k++)
		mon_printf("STAT nt_prop=%d nontrivial=%llu distinct=%llu\n", k, (unsigned long long)S.nt[k], (unsigned long long)sigs_count[k]);
	mon_printf("DONE\n");
	return 0;
}
