/*
 * popen.c - C19: iv_popen wires the child to the returned descriptor, and after the request is closed
 * signals the child (SIGTERM x5, then SIGKILL, 5 s apart, first at once) until it ends, reaps it, and
 * never signals a process id whose termination has been reaped.
 *
 * The child is this same executable started with --popen-child: it reports over a side channel what
 * its standard streams are, acknowledges every SIGTERM, and exits when its script says so.  Time is
 * virtual, children are external actors in the quiescence account.  See DESIGN.md 3 C19.
 */
#include <signal.h>
#include <sys/stat.h>
#include <sys/socket.h>
#include <sys/wait.h>
#include <iv_popen.h>
#include <time.h>
#include <poll.h>
#include "mt.h"

/* ------------------------------------------------------------------ the child */
static int c_side = -1, c_terms, c_exit_on;

static void child_term(int sig)
{
	(void)sig;
	c_terms++;
	if (c_exit_on > 0 && c_terms >= c_exit_on)
		_exit(0);
	if (write(c_side, "T", 1) < 0) {}
}

static int child_main(int argc, char **argv)
{
	/* argv: exe --popen-child <r|w> <sidefd> <behaviour> <nbytes> */
	const char *type = argv[2], *beh = argv[5 - 1];
	long nbytes = atol(argv[5]), i;
	struct stat st, nul;
	char rep[8];
	struct sigaction sa;
	(void)argc;

	vt_set_virtual(0);		/* the child is an ordinary program: no virtual time, no trampolines */
	c_side = atoi(argv[3]);
	memset(&sa, 0, sizeof(sa));
	sa.sa_handler = child_term;
	sigaction(SIGTERM, &sa, NULL);
	if (!strncmp(beh, "term", 4))
		c_exit_on = atoi(beh + 4);
	stat("/dev/null", &nul);
	rep[0] = 'S';
	for (i = 0; i < 3; i++) {
		if (fstat((int)i, &st) < 0) rep[1 + i] = '?';
		else if (S_ISCHR(st.st_mode) && st.st_rdev == nul.st_rdev) rep[1 + i] = 'N';
		else if (S_ISFIFO(st.st_mode)) rep[1 + i] = 'P';
		else rep[1 + i] = 'o';
	}
	if (type[0] == 'r') {
		for (i = 0; i < nbytes; i++) {
			char b = (char)(i * 7 + 3);
			while (write(1, &b, 1) < 0 && errno == EINTR)
				;
		}
	}
	if (write(c_side, rep, 4) < 0) {}
	if (!strcmp(beh, "exit0"))
		_exit(0);
	/* serve standard input (type w), signals and the command channel until told (or made) to go */
	{
		unsigned long n = 0, sum = 0;
		int stdin_open = type[0] == 'w';
		for (;;) {
			struct pollfd pf[2];
			char buf[512];
			long r;
			pf[0].fd = stdin_open ? 0 : -1; pf[0].events = POLLIN; pf[0].revents = 0;
			pf[1].fd = c_side; pf[1].events = POLLIN; pf[1].revents = 0;
			if (__real_poll(pf, 2, -1) < 0)
				continue;
			if (stdin_open && (pf[0].revents & (POLLIN | POLLHUP | POLLERR))) {
				r = read(0, buf, sizeof(buf));
				if (r < 0 && errno == EINTR)
					continue;
				if (r <= 0) {
					char out[64];
					int l = snprintf(out, sizeof(out), "R%lu:%lu;", n, sum);
					if (write(c_side, out, l) < 0) {}
					stdin_open = 0;
				} else {
					for (i = 0; i < r; i++) sum = sum * 31 + (unsigned char)buf[i];
					n += r;
				}
			}
			if (pf[1].revents & (POLLIN | POLLHUP | POLLERR)) {
				char b;
				r = read(c_side, &b, 1);
				if (r < 0 && errno == EINTR)
					continue;
				if (r <= 0 || b == 'x')
					_exit(0);
			}
		}
	}
}

/* ------------------------------------------------------------------ the parent */
#define MAXP 8
enum { B_EXIT0, B_TERM, B_KILLONLY, B_CMD };
struct pr {
	struct iv_popen_request *req;
	int		owner;			/* loop that submitted the request */
	int		type_r, beh, term_n;
	long		nbytes;
	int		fd;			/* returned descriptor */
	struct iv_fd	*ivfd;
	int		side[2];		/* side[0] parent end */
	_Atomic int	pid;
	_Atomic int	outstanding, dead_reaped;
	int		started, closed, fd_closed;
	long		got, wrote;
	unsigned long	wsum;
	int		rep_ok, wrep_seen;
	unsigned long	wrep_n, wrep_sum;
	int64_t		t_close;
	int		nkills, acks;
	int		kill_sig[16];
	int64_t		kill_t[16];
	char		argbuf[6][32];
	char		*argv[7];
	char		typestr[2];
	struct iv_timer	*close_timer;
	int		close_mode;		/* 0 at once after submit, 1 after the start report, 2 after a delay, 3 after the child has gone */
	char		sidebuf[128];
	int		sidelen;
	int64_t		stuck_since;
	_Atomic int	stop_pending, cont_pending;
	int		noexec;
};
static struct pr prs[MAXP];
static _Atomic int nprs;
static pthread_mutex_t side_lock = PTHREAD_MUTEX_INITIALIZER;	/* the side-channel parser is entered by loop threads and by the quiescence decider */
int __real_pthread_mutex_lock(pthread_mutex_t *);
int __real_pthread_mutex_unlock(pthread_mutex_t *);
static char exe_path[512];
static int g_fork_fault;
static int have_true;
static __thread struct pr *tl_submitting;

static struct {
	uint64_t cases, requests, type_r, type_w, closes_before_start, closes_running, closes_after_exit, terms_sent, kills_sent, acks, deaths,
		 bytes_r, bytes_w, full_escalations, schedule_checks, two_loop_cases, zombies_written_off, joint_exits, noexec_children, submit_failures, stops_sent, stops_reaped, conts_reaped;
} S;

static struct pr *pr_by_pid(int pid)
{
	int i;
	for (i = 0; i < nprs; i++)
		if (prs[i].pid == pid)
			return &prs[i];
	return NULL;
}

/* the parent is held up for a moment right after fork() returned (a de-schedule at the worst place): a child that exits at once is
 * then dead, and its SIGCHLD delivered to whichever thread reaps, before the forking thread has done anything with the pid */
static void fork_window_delay(void)
{
	static __thread uint64_t x;
	struct timespec ts = { 0, 0 };
	if (x == 0)
		x = (uint64_t)(uintptr_t)&x | 1;
	x ^= x << 13; x ^= x >> 7; x ^= x << 17;
	if ((x >> 20) % 100 < 65)
		return;
	ts.tv_nsec = (x >> 30) % 100 < 60 ? 50000 + (long)((x >> 40) % 450000) : 3000000 + (long)((x >> 40) % 3000000);
	nanosleep(&ts, NULL);
}

void hk_fork(pid_t pid)
{
	if (pid > 0 && tl_submitting != NULL) {
		tl_submitting->pid = pid;
		/* the child will report its start: an external actor is at work from now on */
		atomic_fetch_add(&tl_submitting->outstanding, 1);
		vt_ext_add(1);
		fork_window_delay();
	}
}

void hk_wait4(pid_t arg, int options, pid_t ret, int status)
{
	struct pr *p;
	(void)arg; (void)options;
	if (ret <= 0 || (p = pr_by_pid(ret)) == NULL)
		return;
	if (WIFEXITED(status) || WIFSIGNALED(status)) {
		int n = atomic_exchange(&p->outstanding, 0);
		p->dead_reaped = 1;
		S.deaths++;
		if (n > 0)
			vt_ext_add(-n);
	} else if (WIFSTOPPED(status) && atomic_exchange(&p->stop_pending, 0)) {
		/* the stop the harness ordered has been seen by the library: continue the child at once (that is the next thing owed) */
		S.stops_reaped++;
		atomic_store(&p->cont_pending, 1);
		if (__real_kill(ret, SIGCONT) < 0) {
			atomic_store(&p->cont_pending, 0);
			if (atomic_load(&p->outstanding) > 0) { atomic_fetch_sub(&p->outstanding, 1); vt_ext_add(-1); }
		}
	} else if (WIFCONTINUED(status) && atomic_exchange(&p->cont_pending, 0)) {
		S.conts_reaped++;
		if (atomic_load(&p->outstanding) > 0) { atomic_fetch_sub(&p->outstanding, 1); vt_ext_add(-1); }
	}
}

/* the calling thread is held up for a moment just before the signal is sent (whatever the caller checked before may have changed by
 * then, unless it holds the lock that the reaper needs) */
void hk_kill_pre(pid_t pid, int sig)
{
	(void)pid; (void)sig;
	fork_window_delay();
}

void hk_kill(pid_t pid, int sig, int ret, int err)
{
	struct pr *p = pr_by_pid(pid);
	(void)err;
	if (p == NULL || sig == 0)
		return;
	if (p->dead_reaped)
		mon_viol("C19", "kill-after-reap", g_method, "signal %d sent to pid %d although its termination had already been reaped", sig, (int)pid);
	if (!p->closed)
		mon_viol("C19", "kill-before-close", g_method, "signal %d sent to pid %d although the request has not been closed", sig, (int)pid);
	if (p->nkills < 16) {
		p->kill_sig[p->nkills] = sig;
		p->kill_t[p->nkills] = vt_now();
	}
	p->nkills++;
	if (sig == SIGTERM) S.terms_sent++; else if (sig == SIGKILL) S.kills_sent++;
	if (p->nkills >= 9 && !p->dead_reaped) {
		/* five termination requests and one SIGKILL end any child; a ninth signal means the library keeps signalling a process that
		 * ended long ago and that nobody reaps: that goes on for ever (the case ends here) */
		siginfo_t si;
		memset(&si, 0, sizeof(si));
		if (waitid(P_PID, (id_t)pid, &si, WNOHANG | WNOWAIT | WEXITED) == 0 && si.si_pid == pid) {
			mon_viol("C19", "zombie-signalled-for-ever", g_method,
				 "signal number %d (%d) sent to pid %d, which ended (si_code %d) but was never reaped: request closed %lld virtual ns ago",
				 p->nkills, sig, (int)pid, si.si_code, (long long)(vt_now() - p->t_close));
			mon_printf("CASE id=%ld zombie=1 viol=%d\n", mon_case_id, mon_viol_case);
			__real_kill(pid, SIGKILL);
			_exit(3);
		}
	}
	if (ret == 0 && !p->dead_reaped) {
		/* the child will acknowledge it or die of it */
		atomic_fetch_add(&p->outstanding, 1);
		vt_ext_add(1);
	}
}

/* reads what the children reported; called while every thread is blocked and actors are pending, and from the loop */
static void poll_side_locked(struct pr *p)
{
	char buf[64];
	long n, i;

	if (p->side[0] < 0)
		return;
	while ((n = __real_read(p->side[0], buf, sizeof(buf))) > 0) {
		for (i = 0; i < n; i++) {
			if (p->sidelen < (int)sizeof(p->sidebuf) - 1)
				p->sidebuf[p->sidelen++] = buf[i];
		}
	}
	/* parse complete records */
	for (;;) {
		if (p->sidelen >= 4 && p->sidebuf[0] == 'S') {
			const char *want = p->type_r ? "NPN" : "PNN";
			p->started = 1;
			p->rep_ok = !memcmp(p->sidebuf + 1, want, 3);
			if (!p->rep_ok)
				mon_viol("C19", "stdio-wiring", g_method, "type %s child reports its standard streams as %.3s (N = null device, P = pipe), expected %s",
					 p->type_r ? "r" : "w", p->sidebuf + 1, want);
			memmove(p->sidebuf, p->sidebuf + 4, p->sidelen - 4);
			p->sidelen -= 4;
			/* start report received; a child that exits by itself is still at work */
			if (p->beh != B_EXIT0 && atomic_load(&p->outstanding) > 0 && !p->dead_reaped) {
				atomic_fetch_sub(&p->outstanding, 1);
				vt_ext_add(-1);
			}
			continue;
		}
		if (p->sidelen >= 1 && p->sidebuf[0] == 'T') {
			p->acks++;
			S.acks++;
			memmove(p->sidebuf, p->sidebuf + 1, p->sidelen - 1);
			p->sidelen--;
			if (atomic_load(&p->outstanding) > 0 && !p->dead_reaped) {
				atomic_fetch_sub(&p->outstanding, 1);
				vt_ext_add(-1);
			}
			continue;
		}
		if (p->sidelen >= 1 && p->sidebuf[0] == 'R') {
			char *semi = memchr(p->sidebuf, ';', p->sidelen);
			if (semi == NULL)
				break;
			*semi = 0;
			sscanf(p->sidebuf + 1, "%lu:%lu", &p->wrep_n, &p->wrep_sum);
			p->wrep_seen = 1;
			memmove(p->sidebuf, semi + 1, p->sidelen - (semi + 1 - p->sidebuf));
			p->sidelen -= (int)(semi + 1 - p->sidebuf);
			continue;
		}
		break;
	}
}

static void poll_side(struct pr *p)
{
	__real_pthread_mutex_lock(&side_lock);
	poll_side_locked(p);
	__real_pthread_mutex_unlock(&side_lock);
}

void hk_ext_poll(void)
{
	int i;
	if (pthread_mutex_trylock(&side_lock))
		return;		/* a loop thread is at it (and therefore running) */
	for (i = 0; i < nprs; i++)
		poll_side_locked(&prs[i]);
	__real_pthread_mutex_unlock(&side_lock);
}

/*
 * Every thread is blocked, every loop has confirmed an empty poll, and actions of children are still owed.  A child that is
 * a zombie (peeked with WNOWAIT) while SIGCHLD is not pending will do nothing more, and the library has let its death pass:
 * after 200 ms of that picture its actions are written off so that virtual time can move on (the 5 s signalling rounds) and
 * the rules at the end of the case can speak ("child-survives-close", "zombie-left").
 */
void hk_ext_stuck(void)
{
	int i;
	int64_t now = mt_real_ns();

	for (i = 0; i < nprs; i++) {
		struct pr *p = &prs[i];
		siginfo_t si;
		if (p->pid <= 0 || atomic_load(&p->outstanding) <= 0 || p->dead_reaped)
			continue;
		memset(&si, 0, sizeof(si));
		if (waitid(P_PID, (id_t)p->pid, &si, WNOHANG | WNOWAIT | WEXITED) != 0 || si.si_pid != p->pid || mt_sigchld_pending()) {
			p->stuck_since = 0;
			continue;
		}
		if (p->stuck_since == 0) {
			p->stuck_since = now;
			continue;
		}
		if (now - p->stuck_since < 200000000LL)
			continue;
		p->stuck_since = 0;
		S.zombies_written_off++;
		mon_printf("NOTE child %d is a zombie, SIGCHLD is not pending and every thread is blocked: its outstanding actions are written off\n", (int)p->pid);
		for (;;) {
			int v = atomic_load(&p->outstanding);
			if (v <= 0)
				break;
			if (atomic_compare_exchange_weak(&p->outstanding, &v, v - 1))
				vt_ext_add(-1);
		}
	}
}

static void tell_exit_stim(void *v);
struct xarg { int i; };

static void do_close(struct pr *p)
{
	if (p->closed)
		return;
	poll_side(p);
	if (p->dead_reaped) S.closes_after_exit++; else if (!p->started) S.closes_before_start++; else S.closes_running++;
	p->closed = 1;
	p->t_close = vt_now();
	if (p->ivfd != NULL) {
		iv_fd_unregister(p->ivfd);
		free(p->ivfd);
		p->ivfd = NULL;
	}
	iv_popen_request_close(p->req);
	memset(p->req, 0xDD, sizeof(*p->req));
	free(p->req);			/* the request belongs to the caller again */
	p->req = NULL;
	__real_close(p->fd);
	p->fd_closed = 1;
	if (p->beh == B_CMD) {
		/* the child goes away at some virtual instant after the close: at once, between two signals, or late */
		struct xarg *a = malloc(sizeof(*a));
		static const int64_t when[] = { 0, 500000000LL, 2500000000LL, 7500000000LL, 12000000000LL, 22000000000LL, 40000000000LL };
		a->i = (int)(p - prs);
		vt_stim_at(vt_now() + when[rng_n(&loops[p->owner].rng, 7)] + (int64_t)rng_n(&loops[p->owner].rng, 1000000), tell_exit_stim, a);
	}
	/* a type w child sees end of file now and reports; a "cmd" child is told to go at some later (virtual) time by a stimulus */
}

static void fd_in(void *cookie)
{
	struct pr *p = cookie;
	char buf[4096];
	long n = __real_read(p->fd, buf, sizeof(buf)), i;
	if (n > 0) {
		for (i = 0; i < n; i++)
			if (buf[i] != (char)((p->got + i) * 7 + 3)) {
				mon_viol("C19", "data-corrupt", g_method, "type r: byte %ld read from the returned descriptor is not what the child wrote to its standard output", p->got + i);
				break;
			}
		p->got += n;
		S.bytes_r += n;
	} else if (n == 0 || (errno != EAGAIN && errno != EINTR)) {
		iv_fd_set_handler_in(p->ivfd, NULL);
	}
}

static void fd_out(void *cookie)
{
	struct pr *p = cookie;
	char buf[1024];
	long left = p->nbytes - p->wrote, n, i;
	if (left <= 0) {
		iv_fd_set_handler_out(p->ivfd, NULL);
		return;
	}
	if (left > (long)sizeof(buf))
		left = sizeof(buf);
	for (i = 0; i < left; i++)
		buf[i] = (char)((p->wrote + i) * 13 + 1);
	n = __real_write(p->fd, buf, left);
	if (n > 0) {
		for (i = 0; i < n; i++)
			p->wsum = p->wsum * 31 + (unsigned char)buf[i];
		p->wrote += n;
		S.bytes_w += n;
	}
	if (p->wrote >= p->nbytes || (n < 0 && errno != EAGAIN && errno != EINTR))
		iv_fd_set_handler_out(p->ivfd, NULL);	/* done, or the child is gone (EPIPE) */
}

static void close_timer_cb(void *cookie)
{
	struct pr *p = cookie;
	free(p->close_timer);
	p->close_timer = NULL;
	if (!mt_phase)
		do_close(p);
}

static void tell_exit_stim(void *v)
{
	struct xarg *a = v;
	struct pr *p = &prs[a->i];
	if (a->i < nprs && p->pid > 0 && !p->dead_reaped && p->side[0] >= 0) {
		atomic_fetch_add(&p->outstanding, 1);
		vt_ext_add(1);
		if (__real_write(p->side[0], "x", 1) != 1) {
			atomic_fetch_sub(&p->outstanding, 1);
			vt_ext_add(-1);
		}
	}
	free(a);
}

/* job control: the child is stopped and, as soon as the library has seen the stop, continued (a living child all along) */
static void stopcont_stim(void *v)
{
	struct xarg *a = v;
	struct pr *p = &prs[a->i];
	if (a->i < nprs && p->pid > 0 && !p->dead_reaped && !atomic_load(&p->stop_pending) && !atomic_load(&p->cont_pending)) {
		atomic_fetch_add(&p->outstanding, 1);
		vt_ext_add(1);
		atomic_store(&p->stop_pending, 1);
		S.stops_sent++;
		if (__real_kill(p->pid, SIGSTOP) < 0) {
			atomic_store(&p->stop_pending, 0);
			atomic_fetch_sub(&p->outstanding, 1);
			vt_ext_add(-1);
		}
	}
	free(a);
}

/* two loops: children of both are told to go at the same instant (their deaths, SIGCHLDs and the release of the wait interests overlap) */
static void joint_exit_stim(void *v)
{
	int i;
	(void)v;
	for (i = 0; i < nprs; i++) {
		struct pr *p = &prs[i];
		if (p->beh != B_CMD || p->pid <= 0 || p->dead_reaped || p->side[0] < 0)
			continue;
		atomic_fetch_add(&p->outstanding, 1);
		vt_ext_add(1);
		if (__real_write(p->side[0], "x", 1) != 1) {
			atomic_fetch_sub(&p->outstanding, 1);
			vt_ext_add(-1);
		}
	}
	S.joint_exits++;
}

static void submit(struct loopthr *lt, struct pr *p)
{
	int fd, i;
	uint64_t f0;

	memset(p, 0, sizeof(*p));
	p->owner = lt->idx;
	p->type_r = rng_pct(&lt->rng, 55);
	p->beh = (nloops > 1 && rng_pct(&lt->rng, 40)) ? B_CMD : (int)rng_n(&lt->rng, 4);
	p->term_n = 1 + rng_n(&lt->rng, 5);
	p->nbytes = rng_pct(&lt->rng, 30) ? 0 : 1 + rng_n(&lt->rng, 20000);
	if (socketpair(AF_UNIX, SOCK_STREAM, 0, p->side) < 0)
		_exit(2);
	fcntl(p->side[0], F_SETFD, FD_CLOEXEC);
	fcntl(p->side[0], F_SETFL, O_NONBLOCK);
	p->req = malloc(sizeof(struct iv_popen_request));
	memset(p->req, 0xA5, sizeof(*p->req));
	IV_POPEN_REQUEST_INIT(p->req);
	p->typestr[0] = p->type_r ? 'r' : 'w';
	snprintf(p->argbuf[0], 32, "popen-child");
	snprintf(p->argbuf[1], 32, "--popen-child");
	snprintf(p->argbuf[2], 32, "%s", p->typestr);
	snprintf(p->argbuf[3], 32, "%d", p->side[1]);
	if (p->beh == B_TERM) snprintf(p->argbuf[4], 32, "term%d", p->term_n);
	else snprintf(p->argbuf[4], 32, "%s", p->beh == B_EXIT0 ? "exit0" : p->beh == B_KILLONLY ? "never" : "cmd");
	snprintf(p->argbuf[5], 32, "%ld", p->nbytes);
	for (i = 0; i < 6; i++)
		p->argv[i] = p->argbuf[i];
	p->argv[6] = NULL;
	p->req->file = exe_path;
	if (p->beh == B_EXIT0 && have_true && rng_pct(&lt->rng, 35)) {
		/* a program that ends at once, within about a millisecond of the fork, without any report.  (Not a program that cannot be
		 * executed: the library's child then calls perror() and exit(), which in a child forked from a multi-threaded process under
		 * AddressSanitizer can block for ever on an allocator lock that another thread held at the moment of the fork - seen as a
		 * sleeping child and a hang of the case, an artefact of the sanitizer run-time, see DESIGN.md 10.) */
		p->noexec = 1;
		p->nbytes = 0;
		p->req->file = "/bin/true";
		snprintf(p->argbuf[5], 32, "0");
		S.noexec_children++;
	}
	p->req->argv = p->argv;
	p->req->type = p->typestr;
	f0 = vt_fault_fired();
	tl_submitting = p;
	fd = iv_popen_request_submit(p->req);
	tl_submitting = NULL;
	__real_close(p->side[1]);
	p->side[1] = -1;
	if (fd < 0) {
		if (vt_fault_fired() == f0)
			mon_viol("C19", "submit-failed", g_method, "iv_popen_request_submit failed");
		else
			S.submit_failures++;	/* fork() was made to fail: the request never existed, the loop must be as it was */
		__real_close(p->side[0]);
		p->side[0] = -1;
		free(p->req);
		p->req = NULL;
		p->closed = 1;
		p->fd_closed = 1;
		return;
	}
	p->fd = fd;
	S.requests++;
	if (p->type_r) S.type_r++; else S.type_w++;
	fcntl(fd, F_SETFL, O_NONBLOCK);
	p->ivfd = malloc(sizeof(struct iv_fd));
	IV_FD_INIT(p->ivfd);
	p->ivfd->fd = fd;
	p->ivfd->cookie = p;
	if (p->type_r) p->ivfd->handler_in = fd_in; else p->ivfd->handler_out = fd_out;
	iv_fd_register(p->ivfd);

	if (rng_pct(&lt->rng, 30)) {
		/* stop + continue at some virtual instant: before the close, around it, or in the middle of the signalling sequence */
		static const int64_t when[] = { 200000LL, 3000000LL, 900000000LL, 4000000000LL, 7000000000LL, 17000000000LL, 32000000000LL };
		struct xarg *a = malloc(sizeof(*a));
		a->i = (int)(p - prs);
		vt_stim_at(vt_now() + when[rng_n(&lt->rng, 7)] + (int64_t)rng_n(&lt->rng, 2000000), stopcont_stim, a);
	}
	p->close_mode = rng_n(&lt->rng, 4);
	if (p->close_mode == 0) {
		do_close(p);		/* close without the child ever having been run by the scheduler, possibly */
	} else {
		int64_t d = p->close_mode == 1 ? 0 : p->close_mode == 2 ? 1000000 * (int64_t)(1 + rng_n(&lt->rng, 8000)) : 30 * VT_NS;
		p->close_timer = malloc(sizeof(struct iv_timer));
		IV_TIMER_INIT(p->close_timer);
		iv_validate_now();
		p->close_timer->expires = iv_now;
		p->close_timer->expires.tv_sec += d / VT_NS;
		p->close_timer->expires.tv_nsec += d % VT_NS;
		if (p->close_timer->expires.tv_nsec >= VT_NS) { p->close_timer->expires.tv_sec++; p->close_timer->expires.tv_nsec -= VT_NS; }
		p->close_timer->cookie = p;
		p->close_timer->handler = close_timer_cb;
		iv_timer_register(p->close_timer);
	}
	if (p->beh == B_CMD && p->close_mode == 3 && rng_pct(&lt->rng, 50)) {
		/* the child goes away by itself long before the close */
		struct xarg *a = malloc(sizeof(*a));
		a->i = (int)(p - prs);
		vt_stim_at(vt_now() + 1000000 * (int64_t)(1 + rng_n(&lt->rng, 10000)), tell_exit_stim, a);
	}
}

static void scn_setup(struct loopthr *lt)
{
	int i;
	int n = 1 + rng_n(&lt->rng, 3), first = atomic_fetch_add(&nprs, n);
	for (i = first; i < first + n && i < MAXP; i++)
		submit(lt, &prs[i]);
	if (nloops > 1 && lt->idx == 0) {
		static const int64_t when[] = { 1000000LL, 400000000LL, 2000000000LL, 6000000000LL, 31000000000LL };
		int k, nj = 1 + rng_n(&lt->rng, 2);
		for (k = 0; k < nj; k++)
			vt_stim_at(vt_now() + when[rng_n(&lt->rng, 5)] + (int64_t)rng_n(&lt->rng, 3000000), joint_exit_stim, NULL);
	}
}

static void scn_ctl(struct loopthr *lt, char cmd)
{
	int i;
	if (cmd != 'T')
		return;
	for (i = 0; i < nprs; i++) {
		struct pr *p = &prs[i];
		if (p->owner != lt->idx)
			continue;
		if (p->close_timer != NULL) {
			iv_timer_unregister(p->close_timer);
			free(p->close_timer);
			p->close_timer = NULL;
		}
		if (p->req != NULL && !p->closed)
			do_close(p);
	}
}

static void scn_after_main(struct loopthr *lt)
{
	int i;
	if (!lt->torn)
		mon_viol("C07", "main-returned-early", g_method, "iv_main returned before tear-down");
	for (i = 0; i < nprs; i++)
		if (prs[i].owner == lt->idx && prs[i].pid > 0 && !prs[i].dead_reaped)
			mon_viol("C19", "main-returned-with-child", g_method, "iv_main returned although the child %d of a closed request has not been reaped", (int)prs[i].pid);
}

static int torn_once;
static int scn_next_phase(void) { return 0; }

static void check_schedule(struct pr *p)
{
	int k;
	S.schedule_checks++;
	for (k = 0; k < p->nkills && k < 16; k++) {
		int want = k < 5 ? SIGTERM : SIGKILL;
		int64_t t = p->t_close + 5 * VT_NS * k, dt = p->kill_t[k] - t;
		if (p->kill_sig[k] != want)
			mon_viol("C19", "wrong-signal", g_method, "signal number %d of the sequence is %d, expected %d", k + 1, p->kill_sig[k], want);
		if (dt < 0 || dt > 20000000)
			mon_viol("C19", "wrong-time", g_method, "signal number %d of the sequence was sent %lld ns after the close, expected %lld (+ at most 20 ms)",
				 k + 1, (long long)(p->kill_t[k] - p->t_close), (long long)(5 * VT_NS * k));
	}
	if (p->nkills >= 6)
		S.full_escalations++;
}

static void scn_quiescent_check(void)
{
	int i;
	/* nothing can happen any more and virtual time has run out: every closed request's child must be gone */
	for (i = 0; i < nprs; i++) {
		struct pr *p = &prs[i];
		poll_side(p);
		if (p->pid <= 0)
			continue;
		if (p->closed) {
			if (!p->dead_reaped)
				mon_viol("C19", "child-survives-close", g_method, "request closed %lld virtual ns ago, %d signals sent, but the child %d has not ended / been reaped (behaviour %d)",
					 (long long)(vt_now() - p->t_close), p->nkills, (int)p->pid, p->beh);
			check_schedule(p);
		}
		if (p->started && p->type_r && p->dead_reaped && !p->fd_closed && p->got != p->nbytes)
			mon_viol("C19", "data-short", g_method, "type r: read %ld of the %ld bytes the child wrote", p->got, p->nbytes);
		if (!p->type_r && p->wrep_seen && (p->wrep_n != (unsigned long)p->wrote || p->wrep_sum != p->wsum))
			mon_viol("C19", "data-corrupt", g_method, "type w: child read %lu bytes (checksum %lu), parent wrote %ld (checksum %lu)", p->wrep_n, p->wrep_sum, p->wrote, p->wsum);
	}
	(void)torn_once;
}

static void scn_dead_end(void)
{
	mon_viol("C19", "hang-after-close", g_method, "every request was closed and the control descriptor unregistered, but iv_main does not return (loop objects of the request not released)");
	mon_viol("C07", "hang-after-teardown", g_method, "tear-down was requested but the loop stays blocked for ever");
}

static int count_fds(void)
{
	int n = 0, fd;
	for (fd = 0; fd < 256; fd++)
		if (fcntl(fd, F_GETFD) >= 0)
			n++;
	return n;
}

static void wd_dump(void)
{
	int i;
	mon_printf("NOTE wd: ext_pending=%d phase=%d nprs=%d now=%lld\n", vt_ext_pending(), (int)mt_phase, nprs, (long long)vt_now());
	for (i = 0; i < nprs; i++) {
		char pth[64], st[256];
		int fd, n;
		st[0] = 0;
		snprintf(pth, sizeof(pth), "/proc/%d/stat", (int)prs[i].pid);
		fd = open(pth, O_RDONLY);
		if (fd >= 0) { n = (int)__real_read(fd, st, 80); if (n > 0) st[n] = 0; __real_close(fd); }
		mon_printf("NOTE wd: req %d noexec=%d procstat=[%s]\n", i, prs[i].noexec, st);
	}
	for (i = 0; i < nprs; i++)
		mon_printf("NOTE wd: req %d type=%s beh=%d close_mode=%d pid=%d outstanding=%d dead=%d started=%d closed=%d nkills=%d acks=%d sidelen=%d\n", i,
			   prs[i].type_r ? "r" : "w", prs[i].beh, prs[i].close_mode, (int)prs[i].pid, (int)prs[i].outstanding, (int)prs[i].dead_reaped,
			   prs[i].started, prs[i].closed, prs[i].nkills, prs[i].acks, prs[i].sidelen);
}

static void run_case(long id, uint64_t seed)
{
	uint64_t cs;
	int i, st, nl, fds0 = count_fds();

	mon_case_id = id;
	mon_viol_case = 0;
	mon_watchdog_dump = wd_dump;
	mon_watchdog((int)(getenv("WD_SECS") ? atoi(getenv("WD_SECS")) : 120));
	cs = mix64(seed ^ (uint64_t)id * 0x9E3779B97F4A7C15ULL);
	vt_reset_case(cs);
	vt_set_single(0);
	atomic_store(&ilv_hash, 0x19);
	atomic_store(&nprs, 0);
	memset(prs, 0, sizeof(prs));
	if (g_fork_fault) {
		char plan[48];
		struct rng rf;
		rng_seed(&rf, cs, 99);
		snprintf(plan, sizeof(plan), "fork:EAGAIN@%u", 1 + rng_n(&rf, 4));
		vt_fault_clear();
		vt_fault_plan(plan);
	}
	{
		struct rng r0;
		rng_seed(&r0, cs, 4711);
		nl = rng_pct(&r0, 40) ? 2 : 1;	/* two loops: whichever thread holds the first SIGCHLD interest reaps for both */
	}
	if (nl > 1)
		S.two_loop_cases++;
	mt_start_loops(nl, cs);
	mt_join_loops();
	for (i = 0; i < nprs; i++) {
		struct pr *p = &prs[i];
		if (p->side[0] >= 0) { __real_close(p->side[0]); p->side[0] = -1; }
		if (p->pid > 0 && !p->dead_reaped) {
			__real_kill(p->pid, SIGKILL);
			__real_wait4(p->pid, &st, 0, NULL);
		}
		if (p->req != NULL) { free(p->req); p->req = NULL; }
		if (!p->fd_closed && p->fd > 0) __real_close(p->fd);
	}
	if (__real_wait4(-1, &st, WNOHANG, NULL) != -1 || errno != ECHILD)
		mon_viol("C19", "zombie-left", g_method, "after the case a child is still waitable (zombie or running)");
	if (count_fds() != fds0)
		mon_viol("C18", "fd-leak", "popen", "%d descriptors open after the case, %d before", count_fds(), fds0);
	S.cases++;
	{
		/* non-trivial: at least one signal had to be sent to a child (the request was closed while the child was alive) */
		int k, sig = 0;
		for (k = 0; k < nprs; k++)
			sig += prs[k].nkills;
		mon_printf("CASE id=%ld trace=%016llx nt=%d requests=%d signals=%d viol=%d\n", id, (unsigned long long)hash_step(cs, S.terms_sent * 131 + S.kills_sent), sig > 0, nprs, sig, mon_viol_case);
	}
	if (id % 23 == 0 && nprs > 0)
		mon_printf("SAMPLE case=%ld method=%s requests=%d first: type=%s behaviour=%d close_mode=%d bytes=%ld signals_sent=%d acks=%d reaped=%d\n", id, g_method, nprs,
			   prs[0].type_r ? "r" : "w", prs[0].beh, prs[0].close_mode, prs[0].nbytes, prs[0].nkills, prs[0].acks, (int)prs[0].dead_reaped);
}

int main(int argc, char **argv)
{
	long first, n, i;
	uint64_t seed;

	if (argc >= 6 && !strcmp(argv[1], "--popen-child"))
		return child_main(argc, argv);
	first = arg_ll(argc, argv, "--first", 0);
	n = arg_ll(argc, argv, "--cases", 20);
	seed = (uint64_t)arg_ll(argc, argv, "--seed", 1);
	if (readlink("/proc/self/exe", exe_path, sizeof(exe_path) - 1) < 0)
		_exit(2);
	g_prop = "C19";
	g_fork_fault = (int)arg_ll(argc, argv, "--fork-fault", 0);
	have_true = access("/bin/true", X_OK) == 0;
	vt_init();
	vt_set_perturb((int)arg_ll(argc, argv, "--perturb", 1));
	iv_set_fatal_msg_handler(mt_fatal);
	signal(SIGPIPE, SIG_IGN);
	mt_learn_method();
	for (i = first; i < first + n; i++)
		run_case(i, seed);
	mon_printf("STAT method=%s cases=%llu requests=%llu type_r=%llu type_w=%llu closed_before_child_started=%llu closed_while_running=%llu closed_after_exit=%llu "
		   "sigterm_sent=%llu sigkill_sent=%llu acks=%llu deaths_reaped=%llu full_escalations=%llu schedule_checks=%llu bytes_read=%llu bytes_written=%llu "
		   "submits_failed_under_fork_fault=%llu children_that_end_at_once=%llu stops_sent=%llu stops_seen_by_library=%llu continues_seen_by_library=%llu two_loop_cases=%llu joint_exit_stimuli=%llu zombies_written_off=%llu shim_quiescences=%llu time_advances=%llu violations=%d\n", g_method, (unsigned long long)S.cases, (unsigned long long)S.requests,
		   (unsigned long long)S.type_r, (unsigned long long)S.type_w, (unsigned long long)S.closes_before_start, (unsigned long long)S.closes_running,
		   (unsigned long long)S.closes_after_exit, (unsigned long long)S.terms_sent, (unsigned long long)S.kills_sent, (unsigned long long)S.acks,
		   (unsigned long long)S.deaths, (unsigned long long)S.full_escalations, (unsigned long long)S.schedule_checks, (unsigned long long)S.bytes_r,
		   (unsigned long long)S.bytes_w, (unsigned long long)S.submit_failures, (unsigned long long)S.noexec_children, (unsigned long long)S.stops_sent, (unsigned long long)S.stops_reaped, (unsigned long long)S.conts_reaped, (unsigned long long)S.two_loop_cases, (unsigned long long)S.joint_exits, (unsigned long long)S.zombies_written_off, (unsigned long long)vt_stats.quiescences, (unsigned long long)vt_stats.time_advances, mon_viol_total);
	mon_printf("DONE\n");
	return 0;
}
