/*
 * sum.c - C15: self-contained ("commutative") scenario programs whose end-of-run summary
 * does not depend on the schedule: per descriptor the bytes consumed / produced, per timer the
 * number of firings, per task the number of runs, per event / raw event / signal interest
 * whether a handler ran after the last post.  The driver runs the same seeded cases under every
 * poll method and every fault plan (EINTR at the k-th wait, ENOSYS/EPERM of each optional system
 * call from the first or from the k-th call) and compares the summaries with the fault-free run
 * on the default method.  See DESIGN.md 3 C15.
 */
#ifndef _GNU_SOURCE
#define _GNU_SOURCE
#endif
#include <errno.h>
#include <fcntl.h>
#include <signal.h>
#include <stdio.h>
#include <stdlib.h>
#include <string.h>
#include <unistd.h>
#include <sys/socket.h>
#include <iv.h>
#include <iv_event.h>
#include <iv_event_raw.h>
#include <iv_signal.h>
#include "vt.h"
#include "mon.h"

#define MAXN 12
static struct rng R;
static const char *g_method = "?";

struct rfd { struct iv_fd f; int fd, peer; int chunk; long want, got; int eof_seen, close_at_end; };
struct wfd { struct iv_fd f; int fd, peer; long quota, sent; };
struct tmr { struct iv_timer t; int rearm, fired; int64_t step; int post_ev, post_raw, raise_sig; };
struct tsk { struct iv_task t; int again, ran; };
struct evt { struct iv_event e; int posts, runs; int run_after_last; };
struct raw { struct iv_event_raw e; int posts, runs; int run_after_last; };
struct sgi { struct iv_signal s; int raised, runs; int run_after_last; };

static struct rfd rf[MAXN]; static int nrf;
static struct wfd wf[MAXN]; static int nwf;
static struct tmr tm[MAXN]; static int ntm;
static struct tsk tk[MAXN]; static int ntk;
static struct evt ev[MAXN]; static int nev;
static struct raw rw[MAXN]; static int nrw;
static struct sgi sg[MAXN]; static int nsg;
static int torn;
static long n_cb;

static void teardown(void);

static void rfd_in(void *c)
{
	struct rfd *r = c;
	char buf[4096];
	long n = __real_read(r->fd, buf, r->chunk);
	n_cb++;
	if (n > 0)
		r->got += n;
	else if (n == 0) {
		r->eof_seen = 1;
		iv_fd_set_handler_in(&r->f, NULL);	/* end of file stays "readable" */
	}
}

static void wfd_out(void *c)
{
	struct wfd *w = c;
	static char buf[8192];
	long left = w->quota - w->sent, n;
	n_cb++;
	if (left <= 0) {
		iv_fd_set_handler_out(&w->f, NULL);
		return;
	}
	n = __real_write(w->fd, buf, left > (long)sizeof(buf) ? (long)sizeof(buf) : left);
	if (n > 0)
		w->sent += n;
	if (w->sent >= w->quota)
		iv_fd_set_handler_out(&w->f, NULL);
}

static void ev_cb(void *c) { struct evt *e = c; n_cb++; e->runs++; e->run_after_last = 1; }
static void raw_cb(void *c) { struct raw *r = c; n_cb++; r->runs++; r->run_after_last = 1; }
static void sig_cb(void *c) { struct sgi *s = c; n_cb++; s->runs++; s->run_after_last = 1; }

static void tsk_cb(void *c)
{
	struct tsk *t = c;
	n_cb++;
	t->ran++;
	if (t->again > 0) {
		t->again--;
		iv_task_register(&t->t);
	}
}

static void tmr_cb(void *c)
{
	struct tmr *t = c;
	n_cb++;
	t->fired++;
	if (t->post_ev >= 0) { ev[t->post_ev].posts++; ev[t->post_ev].run_after_last = 0; iv_event_post(&ev[t->post_ev].e); }
	if (t->post_raw >= 0) { rw[t->post_raw].posts++; rw[t->post_raw].run_after_last = 0; iv_event_raw_post(&rw[t->post_raw].e); }
	if (t->raise_sig >= 0) { sg[t->raise_sig].raised++; sg[t->raise_sig].run_after_last = 0; raise(sg[t->raise_sig].s.signum); }
	if (t->rearm > 0) {
		t->rearm--;
		iv_validate_now();
		t->t.expires = iv_now;
		t->t.expires.tv_sec += t->step / VT_NS;
		t->t.expires.tv_nsec += t->step % VT_NS;
		if (t->t.expires.tv_nsec >= VT_NS) { t->t.expires.tv_sec++; t->t.expires.tv_nsec -= VT_NS; }
		iv_timer_register(&t->t);
	}
}

/* stimuli: the outside world feeds the read descriptors and drains the peers of the write descriptors */
struct feed { int i, n; };
static void feed_fn(void *v)
{
	struct feed *f = v;
	static char buf[65536];
	if (!torn && f->i < nrf)
		if (__real_write(rf[f->i].peer, buf, f->n) < 0) {}
	free(f);
}
static void drain_fn(void *v)
{
	struct feed *f = v;
	static char buf[65536];
	if (!torn && f->i < nwf)
		while (__real_read(wf[f->i].peer, buf, sizeof(buf)) > 0)
			;
	free(f);
}
static void closepeer_fn(void *v)
{
	struct feed *f = v;
	if (!torn && f->i < nrf && rf[f->i].peer >= 0) {
		__real_close(rf[f->i].peer);
		rf[f->i].peer = -1;
	}
	free(f);
}

static void set_nb(int fd) { fcntl(fd, F_SETFL, fcntl(fd, F_GETFL) | O_NONBLOCK); }

static int all_done(void)
{
	int i;
	for (i = 0; i < nrf; i++) if (rf[i].got != rf[i].want || (rf[i].close_at_end && !rf[i].eof_seen)) return 0;
	for (i = 0; i < nwf; i++) if (wf[i].sent != wf[i].quota) return 0;
	for (i = 0; i < ntm; i++) if (tm[i].rearm > 0 || !tm[i].fired) return 0;
	for (i = 0; i < ntk; i++) if (tk[i].again > 0 || !tk[i].ran) return 0;
	return 1;
}

static int drained_once;

int hk_quiescent(void)
{
	int i;
	if (torn)
		return 0;
	/* the writers may be stuck on full peers whose drain stimuli are over: drain them once more */
	if (!drained_once) {
		static char buf[65536];
		int any = 0;
		drained_once = 1;
		for (i = 0; i < nwf; i++)
			if (wf[i].sent < wf[i].quota) {
				while (__real_read(wf[i].peer, buf, sizeof(buf)) > 0)
					any = 1;
			}
		if (any) {
			drained_once = 0;
			return 1;
		}
	}
	teardown();
	return 1;
}

void hk_dead_end(void)
{
	mon_viol("C15", "hang", g_method, "nothing can happen any more and the loop does not return after tear-down");
	mon_printf("CASE id=%ld dead_end=1\n", mon_case_id);
	_exit(3);
}

static int reaper[2];
static struct iv_fd reaper_fd;

static void reaper_cb(void *c)
{
	int i;
	(void)c;
	torn = 2;
	for (i = 0; i < nrf; i++) iv_fd_unregister(&rf[i].f);
	for (i = 0; i < nwf; i++) iv_fd_unregister(&wf[i].f);
	for (i = 0; i < ntm; i++) if (iv_timer_registered(&tm[i].t)) iv_timer_unregister(&tm[i].t);
	for (i = 0; i < ntk; i++) if (iv_task_registered(&tk[i].t)) iv_task_unregister(&tk[i].t);
	for (i = 0; i < nev; i++) iv_event_unregister(&ev[i].e);
	for (i = 0; i < nrw; i++) iv_event_raw_unregister(&rw[i].e);
	for (i = 0; i < nsg; i++) iv_signal_unregister(&sg[i].s);
	iv_fd_unregister(&reaper_fd);
}

static void teardown(void)
{
	torn = 1;
	if (__real_write(reaper[1], "x", 1) < 0) {}
}

static void fatal_msg(const char *msg)
{
	mon_viol("C15", "iv_fatal", g_method, "library called iv_fatal: %s", msg);
	mon_viol("C18", "iv_fatal", "sum", "library called iv_fatal: %s", msg);
}

static void run_case(long id, long kk, uint64_t seed)
{
	int i, sv[2];
	uint64_t h = 0x51;
	char desc[1024];
	int dl = 0;

	mon_case_id = id;
	mon_viol_case = 0;
	mon_watchdog(30);
	rng_seed(&R, seed, (uint64_t)id);
	vt_reset_case(mix64(seed ^ (uint64_t)id));
	vt_set_single(1);
	nrf = nwf = ntm = ntk = nev = nrw = nsg = 0;
	torn = 0; n_cb = 0; drained_once = 0;

	iv_init();
	if (__real_pipe(reaper) < 0) _exit(2);
	set_nb(reaper[0]);
	IV_FD_INIT(&reaper_fd);
	reaper_fd.fd = reaper[0];
	reaper_fd.handler_in = reaper_cb;
	iv_fd_register(&reaper_fd);

	/* events first: timers refer to them */
	nev = rng_n(&R, 3); nrw = rng_n(&R, 3); nsg = rng_n(&R, 3);
	for (i = 0; i < nev; i++) {
		memset(&ev[i], 0, sizeof(ev[i]));
		IV_EVENT_INIT(&ev[i].e); ev[i].e.cookie = &ev[i]; ev[i].e.handler = ev_cb;
		ev[i].run_after_last = 1;
		iv_event_register(&ev[i].e);
	}
	for (i = 0; i < nrw; i++) {
		memset(&rw[i], 0, sizeof(rw[i]));
		IV_EVENT_RAW_INIT(&rw[i].e); rw[i].e.cookie = &rw[i]; rw[i].e.handler = raw_cb;
		rw[i].run_after_last = 1;
		iv_event_raw_register(&rw[i].e);
	}
	for (i = 0; i < nsg; i++) {
		memset(&sg[i], 0, sizeof(sg[i]));
		IV_SIGNAL_INIT(&sg[i].s); sg[i].s.signum = i == 0 ? SIGUSR1 : i == 1 ? SIGUSR2 : 40;
		sg[i].s.flags = 0; sg[i].s.cookie = &sg[i]; sg[i].s.handler = sig_cb;
		sg[i].run_after_last = 1;
		iv_signal_register(&sg[i].s);
	}
	nrf = rng_n(&R, 5);
	for (i = 0; i < nrf; i++) {
		struct rfd *r = &rf[i];
		int k, nchunks = 1 + rng_n(&R, 6);
		int64_t t = vt_now();
		memset(r, 0, sizeof(*r));
		if (rng_pct(&R, 50)) { if (__real_pipe(sv) < 0) _exit(2); r->fd = sv[0]; r->peer = sv[1]; }
		else { if (socketpair(AF_UNIX, SOCK_STREAM, 0, sv) < 0) _exit(2); r->fd = sv[0]; r->peer = sv[1]; }
		set_nb(r->peer);
		r->chunk = 1 + rng_n(&R, rng_pct(&R, 50) ? 16 : 4096);
		IV_FD_INIT(&r->f); r->f.fd = r->fd; r->f.cookie = r; r->f.handler_in = rfd_in;
		if (rng_pct(&R, 50)) iv_fd_register(&r->f); else { vt_in_register_try = 1; iv_fd_register_try(&r->f); vt_in_register_try = 0; }
		for (k = 0; k < nchunks; k++) {
			struct feed *f = malloc(sizeof(*f));
			f->i = i; f->n = 1 + rng_n(&R, 3000);
			r->want += f->n;
			t += rng_n(&R, 4) == 0 ? 0 : 1000 * (int64_t)rng_n(&R, 5000);
			vt_stim_at(t, feed_fn, f);
		}
		r->close_at_end = rng_pct(&R, 40);
		if (r->close_at_end) {
			struct feed *f = malloc(sizeof(*f));
			f->i = i; f->n = 0;
			vt_stim_at(t + 1000 * (int64_t)rng_n(&R, 3000), closepeer_fn, f);
		}
		dl += snprintf(desc + dl, sizeof(desc) - dl, "rd%d(chunk %d, %ld bytes%s) ", i, r->chunk, r->want, r->close_at_end ? ", eof" : "");
	}
	nwf = rng_n(&R, 3);
	for (i = 0; i < nwf; i++) {
		struct wfd *w = &wf[i];
		int k;
		int64_t t = vt_now();
		memset(w, 0, sizeof(*w));
		if (socketpair(AF_UNIX, SOCK_STREAM, 0, sv) < 0) _exit(2);
		w->fd = sv[0]; w->peer = sv[1];
		set_nb(w->peer);
		w->quota = 1 + rng_n(&R, 600000);
		IV_FD_INIT(&w->f); w->f.fd = w->fd; w->f.cookie = w; w->f.handler_out = wfd_out;
		iv_fd_register(&w->f);
		for (k = 0; k < 12; k++) {
			struct feed *f = malloc(sizeof(*f));
			f->i = i; f->n = 0;
			t += 1000 * (int64_t)rng_n(&R, 4000);
			vt_stim_at(t, drain_fn, f);
		}
		dl += snprintf(desc + dl, sizeof(desc) - dl, "wr%d(%ld bytes) ", i, w->quota);
	}
	ntm = rng_n(&R, 6);
	for (i = 0; i < ntm; i++) {
		struct tmr *t = &tm[i];
		int64_t e = vt_now() + (rng_pct(&R, 20) ? 0 : 1000 * (int64_t)rng_n(&R, 20000));
		memset(t, 0, sizeof(*t));
		IV_TIMER_INIT(&t->t);
		t->t.expires.tv_sec = e / VT_NS; t->t.expires.tv_nsec = e % VT_NS;
		t->t.cookie = t; t->t.handler = tmr_cb;
		t->rearm = rng_n(&R, 8);
		t->step = rng_pct(&R, 30) ? 0 : 1000 * (int64_t)(1 + rng_n(&R, 3000));
		t->post_ev = nev && rng_pct(&R, 50) ? (int)rng_n(&R, nev) : -1;
		t->post_raw = nrw && rng_pct(&R, 50) ? (int)rng_n(&R, nrw) : -1;
		t->raise_sig = nsg && rng_pct(&R, 40) ? (int)rng_n(&R, nsg) : -1;
		iv_timer_register(&t->t);
		dl += snprintf(desc + dl, sizeof(desc) - dl, "timer%d(x%d, step %lldus) ", i, t->rearm + 1, (long long)t->step / 1000);
	}
	ntk = rng_n(&R, 4);
	for (i = 0; i < ntk; i++) {
		struct tsk *t = &tk[i];
		memset(t, 0, sizeof(*t));
		IV_TASK_INIT(&t->t); t->t.cookie = t; t->t.handler = tsk_cb;
		t->again = rng_n(&R, 10);
		iv_task_register(&t->t);
		dl += snprintf(desc + dl, sizeof(desc) - dl, "task%d(x%d) ", i, t->again + 1);
	}

	iv_main();

	if (torn != 2)
		mon_viol("C15", "main-returned-early", g_method, "iv_main returned before the tear-down ran");
	if (!all_done()) {
		char why[512];
		int l = 0;
		for (i = 0; i < nrf; i++) if (rf[i].got != rf[i].want) l += snprintf(why + l, sizeof(why) - l, "rd%d consumed %ld of %ld; ", i, rf[i].got, rf[i].want);
		for (i = 0; i < nwf; i++) if (wf[i].sent != wf[i].quota) l += snprintf(why + l, sizeof(why) - l, "wr%d sent %ld of %ld; ", i, wf[i].sent, wf[i].quota);
		for (i = 0; i < ntm; i++) if (tm[i].rearm > 0 || !tm[i].fired) l += snprintf(why + l, sizeof(why) - l, "timer%d has %d firings left; ", i, tm[i].rearm + !tm[i].fired);
		for (i = 0; i < ntk; i++) if (tk[i].again > 0 || !tk[i].ran) l += snprintf(why + l, sizeof(why) - l, "task%d has %d runs left; ", i, tk[i].again + !tk[i].ran);
		why[l] = 0;
		mon_viol("C15", "work-left-undone", g_method, "the loop went idle with work outstanding: %s", why);
	}
	for (i = 0; i < nev; i++) if (!ev[i].run_after_last) mon_viol("C15", "event-not-delivered", g_method, "event %d: no handler run after its last post (%d posts, %d runs)", i, ev[i].posts, ev[i].runs);
	for (i = 0; i < nrw; i++) if (!rw[i].run_after_last) mon_viol("C15", "raw-not-delivered", g_method, "raw event %d: no handler run after its last post (%d posts, %d runs)", i, rw[i].posts, rw[i].runs);
	for (i = 0; i < nsg; i++) if (!sg[i].run_after_last) mon_viol("C15", "signal-not-delivered", g_method, "signal interest %d: no handler run after the last raise (%d raised, %d runs)", i, sg[i].raised, sg[i].runs);

	/* schedule-independent summary */
	for (i = 0; i < nrf; i++) { h = hash_step(h, rf[i].got); h = hash_step(h, rf[i].eof_seen); }
	for (i = 0; i < nwf; i++) h = hash_step(h, wf[i].sent);
	for (i = 0; i < ntm; i++) h = hash_step(h, tm[i].fired);
	for (i = 0; i < ntk; i++) h = hash_step(h, tk[i].ran);
	for (i = 0; i < nev; i++) { h = hash_step(h, ev[i].posts); h = hash_step(h, ev[i].run_after_last); h = hash_step(h, ev[i].runs <= ev[i].posts); }
	for (i = 0; i < nrw; i++) { h = hash_step(h, rw[i].posts); h = hash_step(h, rw[i].run_after_last); }
	for (i = 0; i < nsg; i++) { h = hash_step(h, sg[i].raised); h = hash_step(h, sg[i].run_after_last); }

	iv_deinit();
	for (i = 0; i < nrf; i++) { __real_close(rf[i].fd); if (rf[i].peer >= 0) __real_close(rf[i].peer); }
	for (i = 0; i < nwf; i++) { __real_close(wf[i].fd); __real_close(wf[i].peer); }
	__real_close(reaper[0]); __real_close(reaper[1]);

	mon_printf("CASE id=%ld k=%ld summary=%016llx nt=%d cb=%ld inj=%llu viol=%d\n", id, kk, (unsigned long long)h,
		   (nrf + nwf + ntm + ntk) > 0, n_cb, (unsigned long long)vt_fault_fired(), mon_viol_case);
	if (id % 211 == 0 && kk <= 1)
		mon_printf("SAMPLE case=%ld method=%s %s ev=%d raw=%d sig=%d\n", id, g_method, desc, nev, nrw, nsg);
}

int main(int argc, char **argv)
{
	long first = arg_ll(argc, argv, "--first", 0), n = arg_ll(argc, argv, "--cases", 100), i, k;
	uint64_t seed = (uint64_t)arg_ll(argc, argv, "--seed", 1);
	long eintr_k = arg_ll(argc, argv, "--eintr-every", 0);
	const char *plan = getenv("VT_FAULTS");

	vt_init();
	iv_set_fatal_msg_handler(fatal_msg);
	signal(SIGPIPE, SIG_IGN);
	iv_init();
	g_method = iv_poll_method_name();
	iv_deinit();
	for (i = first; i < first + n; i++) {
		if (eintr_k) {
			/* EINTR enumeration: the same case with its k-th wait interrupted, for k = 1..eintr_k (restricted to waits that exist) */
			for (k = 1; k <= eintr_k; k++) {
				char p[64];
				uint64_t before;
				vt_fault_clear();
				snprintf(p, sizeof(p), "wait:EINTR@%ld", k);
				vt_fault_plan(p);
				before = vt_fault_fired();
				run_case(i, k, seed);
				if (vt_fault_fired() == before)
					break;		/* the case has fewer than k waits */
			}
			vt_fault_clear();
		} else {
			run_case(i, 0, seed);
		}
	}
	(void)plan;
	mon_printf("STAT method=%s injected=%llu waits=%llu successful_calls_leaving_stale_errno=%llu\n", g_method, (unsigned long long)vt_stats.injected, (unsigned long long)vt_stats.waits, (unsigned long long)vt_stats.stale_errno);
	mon_printf("DONE\n");
	return 0;
}
