#!/bin/sh
# Builds the framework from files on disk only (offline): compiles every build variant of the
# library from /repo's working tree plus the harnesses, so that the first check does not pay for it.
cd "$(dirname "$0")" || exit 1
mkdir -p build evidence replay
python3 - <<'PY'
import importlib.machinery, importlib.util, sys
l = importlib.machinery.SourceFileLoader('check', './check')
s = importlib.util.spec_from_loader('check', l); m = importlib.util.module_from_spec(s); l.exec_module(m)
try:
    m.prebuild()
except m.BuildError as e:
    print(e); sys.exit(1)
print('setup ok')
PY
